/-
  Helper lemmas about the semantics of the generated loader (C03):
  a denotational reading (`specOk`, `specArgs`, `specExtra`) of a crown on a datum and the
  proof that a successful run of the operational semantics (`loadBranch`, any debug mode)
  computes exactly it.
-/
import AdaptixModel.Layout.ModelLoad

namespace Adaptix.Layout

/-! ### the errors list only grows -/

/-- `st'` extends the error list of `st` -/
def Grows (st st' : LState) : Prop := ∃ l, st'.errors = st.errors ++ l

theorem Grows.refl (st : LState) : Grows st st := ⟨[], by simp⟩

theorem Grows.trans {a b c : LState} (h1 : Grows a b) (h2 : Grows b c) : Grows a c := by
  obtain ⟨l1, h1⟩ := h1
  obtain ⟨l2, h2⟩ := h2
  exact ⟨l1 ++ l2, by rw [h2, h1, List.append_assoc]⟩

/-- if nothing was appended over two steps, nothing was appended in either -/
theorem Grows.eq_of_eq {a b c : LState} (h1 : Grows a b) (h2 : Grows b c) (h : c.errors = a.errors) :
    b.errors = a.errors ∧ c.errors = b.errors := by
  obtain ⟨l1, h1⟩ := h1
  obtain ⟨l2, h2⟩ := h2
  rw [h2, h1, List.append_assoc] at h
  have : l1 ++ l2 = [] := by
    have := congrArg List.length h
    simp at this
    cases l1 <;> cases l2 <;> simp_all
  have h3 : l1 = [] ∧ l2 = [] := by simpa using this
  simp [h1, h2, h3.1, h3.2]

theorem emit_grows (cfg : LoadCfg) (p : Path) (e : LErr) (st : LState) : Grows st (emit cfg p e st).1 := by
  unfold emit
  cases cfg.mode <;> simp [Grows]

/-- `emit` never ends with `ok` without recording the error -/
theorem emit_ok (cfg : LoadCfg) (p : Path) (e : LErr) (st st' : LState) (h : emit cfg p e st = (st', .ok ()))
    : st'.errors ≠ st.errors := by
  unfold emit at h
  cases hm : cfg.mode <;> simp [hm] at h
  rw [← h]
  simp

theorem assignField_grows (cfg : LoadCfg) (p : Path) (id : String) (v : Val) (st : LState) :
    Grows st (assignField cfg p id v st).1 := by
  unfold assignField
  cases cfg.loader id v <;> cases cfg.mode <;> simp [Grows]

theorem assignField_ok (cfg : LoadCfg) (p : Path) (id : String) (v : Val) (st st' : LState)
    (h : assignField cfg p id v st = (st', .ok ())) (he : st'.errors = st.errors) :
    ∃ x, cfg.loader id v = .ok x ∧ st'.args = st.args ++ [(id, x)] := by
  unfold assignField at h
  cases hl : cfg.loader id v with
  | ok x =>
    simp [hl] at h
    exact ⟨x, rfl, by rw [← h]⟩
  | error e =>
    cases hm : cfg.mode <;> simp [hl, hm] at h
    rw [← h] at he
    simp at he

theorem onLookupError_errors (cfg : LoadCfg) (id : String) (st : LState) :
    (onLookupError cfg id st).errors = st.errors := by
  unfold onLookupError
  cases (cfg.field id).default <;> rfl

theorem raiseBadType_not_ok {α : Type} (cfg : LoadCfg) (p : Path) (e : LErr) (st st' : LState) (a : α) :
    raiseBadType cfg p e st ≠ (st', .ok a) := by
  unfold raiseBadType
  split <;> simp

theorem raiseBadType_state {α : Type} (cfg : LoadCfg) (p : Path) (e : LErr) (st : LState) :
    (raiseBadType (α := α) cfg p e st).1 = st := by
  unfold raiseBadType
  split <;> rfl

theorem notFoundDict_grows (cfg : LoadCfg) (p : Path) (d : Val) (req : List String) (hnf : Bool) (st : LState) :
    Grows st (notFoundDict cfg p d req hnf st).1 := by
  unfold notFoundDict
  cases cfg.mode <;> cases hnf <;> simp [Grows]

theorem getFromDict_grows (cfg : LoadCfg) (p : Path) (d : Val) (req : List String) (k : String) (checked hnf : Bool)
    (st : LState) : Grows st (getFromDict cfg p d req k checked hnf st).1 := by
  unfold getFromDict
  split
  · exact Grows.refl _
  · have := notFoundDict_grows cfg p d req hnf st
    split <;> simp_all
  · split
    · exact Grows.refl _
    · rw [raiseBadType_state]; exact Grows.refl _

/-- a missing key never goes unnoticed while `has_not_found_error` is still false -/
theorem getFromDict_ok (cfg : LoadCfg) (p : Path) (d : Val) (req : List String) (k : String) (checked : Bool)
    (st st' : LState) (ov : Option Val) (hnf' : Bool)
    (h : getFromDict cfg p d req k checked false st = (st', .ok (ov, hnf'))) (he : st'.errors = st.errors) :
    st' = st ∧ hnf' = false ∧ ∃ v, d.getItem (.s k) = .found v ∧ ov = some v := by
  unfold getFromDict at h
  split at h
  · rename_i v hv
    simp at h
    exact ⟨h.1.symm, h.2.2, v, hv, h.2.1.symm⟩
  · exfalso
    unfold notFoundDict at h
    cases hm : cfg.mode <;> simp [hm] at h
    rw [← h.1] at he
    simp at he
  · exfalso
    split at h
    · simp at h
    · exact raiseBadType_not_ok _ _ _ _ _ _ h

theorem getFromList_grows (cfg : LoadCfg) (p : Path) (d : Val) (n i : Nat) (checked : Bool) (st : LState) :
    Grows st (getFromList cfg p d n i checked st).1 := by
  unfold getFromList
  split
  · exact Grows.refl _
  · cases cfg.mode <;> exact Grows.refl _
  · split
    · exact Grows.refl _
    · rw [raiseBadType_state]; exact Grows.refl _

/-- the element was found, or (ALL mode only) the index is out of range and nothing happened -/
theorem getFromList_ok (cfg : LoadCfg) (p : Path) (d : Val) (n i : Nat) (checked : Bool)
    (st st' : LState) (ov : Option Val)
    (h : getFromList cfg p d n i checked st = (st', .ok ov)) :
    st' = st ∧ ((∃ v, d.getItem (.i i) = .found v ∧ ov = some v) ∨ (d.getItem (.i i) = .indexError ∧ ov = none)) := by
  unfold getFromList at h
  split at h
  · rename_i v hv
    simp at h
    exact ⟨h.1.symm, .inl ⟨v, hv, h.2.symm⟩⟩
  · rename_i hv
    cases hm : cfg.mode <;> simp [hm] at h
    exact ⟨h.1.symm, .inr ⟨hv, h.2.symm⟩⟩
  · exfalso
    split at h
    · simp at h
    · exact raiseBadType_not_ok _ _ _ _ _ _ h

/-! ### denotational reading of one field leaf -/

def loaderOk (cfg : LoadCfg) (id : String) (v : Val) : Bool :=
  match cfg.loader id v with
  | .ok _ => true
  | .error _ => false

/-- what a field crown under a dict node contributes to the constructor arguments -/
def specFieldDict (cfg : LoadCfg) (d : Val) (k id : String) : List (String × Val) :=
  match d.getItem (.s k) with
  | .found v =>
    match cfg.loader id v with
    | .ok x => [(id, x)]
    | .error _ => []
  | _ =>
    match (cfg.field id).default with
    | some dv => [(id, dv)]
    | none => []

def okFieldDict (cfg : LoadCfg) (d : Val) (k id : String) : Bool :=
  match d.getItem (.s k) with
  | .found v => loaderOk cfg id v
  | _ => !(cfg.field id).required

def specFieldList (cfg : LoadCfg) (d : Val) (i : Nat) (id : String) : List (String × Val) :=
  match d.getItem (.i i) with
  | .found v =>
    match cfg.loader id v with
    | .ok x => [(id, x)]
    | .error _ => []
  | _ => []

theorem specFieldDict_not_found (cfg : LoadCfg) (d : Val) (k id : String)
    (h : ∀ v, d.getItem (.s k) = .found v → False) :
    specFieldDict cfg d k id = (match (cfg.field id).default with | some dv => [(id, dv)] | none => []) := by
  unfold specFieldDict
  split
  · rename_i v hv; exact absurd hv (h v)
  · rfl

theorem okFieldDict_not_found (cfg : LoadCfg) (d : Val) (k id : String)
    (h : ∀ v, d.getItem (.s k) = .found v → False) :
    okFieldDict cfg d k id = !(cfg.field id).required := by
  unfold okFieldDict
  split
  · rename_i v hv; exact absurd hv (h v)
  · rfl

/-- a dict-keyed subscription only succeeds on a dict -/
theorem isMapping_of_found_s {d : Val} {k : String} {v : Val} (h : d.getItem (.s k) = .found v) : d.isMapping = true := by
  cases d <;> simp [Val.getItem] at h ⊢ <;> simp [Val.isMapping]

/-- an index subscription only succeeds / runs out of range on a list or a str -/
theorem isSequence_of_found_i {d : Val} {i : Nat} {v : Val} (h : d.getItem (.i i) = .found v) : d.isSequence = true := by
  cases d <;> simp [Val.getItem] at h ⊢ <;> simp [Val.isSequence]

theorem isSequence_of_indexError {d : Val} {i : Nat} (h : d.getItem (.i i) = .indexError) : d.isSequence = true := by
  cases d <;> simp [Val.getItem] at h ⊢ <;> simp [Val.isSequence]
  all_goals (split at h <;> simp at h)

theorem getItem_found_of_lt' {d : Val} {i : Nat} (hs : d.isSequence = true) (hi : i < d.len) :
    ∃ v, d.getItem (.i i) = .found v := by
  cases d <;> simp [Val.isSequence] at hs
  · rename_i s
    simp only [Val.len] at hi
    have : i < s.toList.length := by rw [String.length_toList]; exact hi
    simp only [Val.getItem]
    rw [List.getElem?_eq_getElem this]
    exact ⟨_, rfl⟩
  · rename_i xs
    simp only [Val.len] at hi
    simp only [Val.getItem]
    rw [List.getElem?_eq_getElem hi]
    exact ⟨_, rfl⟩

theorem fieldFromDict_grows (cfg : LoadCfg) (p : Path) (d : Val) (req : List String) (k id : String)
    (checked hnf : Bool) (st : LState) : Grows st (fieldFromDict cfg p d req k id checked hnf st).1 := by
  unfold fieldFromDict
  split
  · have h1 := getFromDict_grows cfg p d req k checked hnf st
    split
    · rename_i st' v hnf' heq
      rw [heq] at h1
      have h2 := assignField_grows cfg (p ++ [.s k]) id v st'
      split <;> rename_i heq2 <;> rw [heq2] at h2 <;> exact h1.trans h2
    all_goals (rename_i heq; rw [heq] at h1; exact h1)
  · split
    · split
      · rename_i v _
        have h2 := assignField_grows cfg (p ++ [.s k]) id v st
        split <;> rename_i heq2 <;> rw [heq2] at h2 <;> exact h2
      · exact ⟨[], by simp [onLookupError_errors]⟩
    · split
      · exact Grows.refl _
      · rw [raiseBadType_state]; exact Grows.refl _

theorem fieldFromDict_ok (cfg : LoadCfg) (p : Path) (d : Val) (req : List String) (k id : String) (checked : Bool)
    (st st' : LState) (hnf' : Bool)
    (h : fieldFromDict cfg p d req k id checked false st = (st', .ok hnf')) (he : st'.errors = st.errors) :
    hnf' = false ∧ st'.args = st.args ++ specFieldDict cfg d k id ∧ okFieldDict cfg d k id = true ∧ d.isMapping = true := by
  unfold fieldFromDict at h
  split at h
  · -- required field
    rename_i hreq
    have g1 := getFromDict_grows cfg p d req k checked false st
    split at h
    · rename_i st1 v hnf1 heq
      rw [heq] at g1
      have g2 := assignField_grows cfg (p ++ [.s k]) id v st1
      split at h
      · rename_i st2 heq2
        simp at h
        rw [heq2] at g2
        obtain ⟨rfl, rfl⟩ := h
        obtain ⟨e1, e2⟩ := Grows.eq_of_eq g1 g2 he
        obtain ⟨rfl, rfl, v', hv', hov⟩ := getFromDict_ok _ _ _ _ _ _ _ _ _ _ heq e1
        obtain ⟨x, hx, hargs⟩ := assignField_ok _ _ _ _ _ _ heq2 e2
        simp at hov
        subst hov
        refine ⟨rfl, ?_, ?_, isMapping_of_found_s hv'⟩
        · simp [specFieldDict, hv', hx, hargs]
        · simp [okFieldDict, hv', loaderOk, hx]
      · simp at h
      · simp at h
    · rename_i st1 hnf1 heq
      simp at h
      obtain ⟨rfl, rfl⟩ := h
      obtain ⟨_, _, v', _, hov⟩ := getFromDict_ok _ _ _ _ _ _ _ _ _ _ heq he
      simp at hov
    · simp at h
    · simp at h
  · -- optional field
    rename_i hreq
    split at h
    · rename_i kvs
      split at h
      · rename_i v hv
        have g2 := assignField_grows cfg (p ++ [.s k]) id v st
        split at h
        · rename_i st2 heq2
          simp at h
          obtain ⟨rfl, rfl⟩ := h
          obtain ⟨x, hx, hargs⟩ := assignField_ok _ _ _ _ _ _ heq2 he
          refine ⟨rfl, ?_, ?_, rfl⟩
          · simp [specFieldDict, hv, hx, hargs]
          · simp [okFieldDict, hv, loaderOk, hx]
        · simp at h
        · simp at h
      · rename_i hv
        simp at h
        obtain ⟨rfl, rfl⟩ := h
        refine ⟨rfl, ?_, ?_, rfl⟩
        · rw [specFieldDict_not_found cfg _ k id hv]
          unfold onLookupError
          cases (cfg.field id).default <;> simp
        · rw [okFieldDict_not_found cfg _ k id hv]
          simpa using hreq
    · exfalso
      split at h
      · simp at h
      · exact raiseBadType_not_ok _ _ _ _ _ _ h

theorem fieldFromList_grows (cfg : LoadCfg) (p : Path) (d : Val) (n i : Nat) (id : String) (checked : Bool)
    (st : LState) : Grows st (fieldFromList cfg p d n i id checked st).1 := by
  unfold fieldFromList
  have h1 := getFromList_grows cfg p d n i checked st
  split
  · rename_i st' v heq
    rw [heq] at h1
    exact h1.trans (assignField_grows _ _ _ _ _)
  all_goals (rename_i heq; rw [heq] at h1; exact h1)

theorem fieldFromList_ok (cfg : LoadCfg) (p : Path) (d : Val) (n i : Nat) (id : String) (checked : Bool)
    (st st' : LState) (h : fieldFromList cfg p d n i id checked st = (st', .ok ())) (he : st'.errors = st.errors) :
    st'.args = st.args ++ specFieldList cfg d i id ∧ d.isSequence = true ∧
      (∀ v, d.getItem (.i i) = .found v → loaderOk cfg id v = true) := by
  unfold fieldFromList at h
  split at h
  · rename_i st1 v heq
    obtain ⟨rfl, hres⟩ := getFromList_ok _ _ _ _ _ _ _ _ _ heq
    rcases hres with ⟨v', hv', hov⟩ | ⟨_, hov⟩
    · simp at hov
      subst hov
      obtain ⟨x, hx, hargs⟩ := assignField_ok _ _ _ _ _ _ h he
      refine ⟨by simp [specFieldList, hv', hx, hargs], isSequence_of_found_i hv', ?_⟩
      intro w hw
      rw [hv'] at hw
      simp at hw
      subst hw
      simp [loaderOk, hx]
    · simp at hov
  · rename_i st1 heq
    simp at h
    subst h
    obtain ⟨rfl, hres⟩ := getFromList_ok _ _ _ _ _ _ _ _ _ heq
    rcases hres with ⟨v', _, hov⟩ | ⟨hv, _⟩
    · simp at hov
    · refine ⟨by simp [specFieldList, hv], isSequence_of_indexError hv, ?_⟩
      intro w hw
      rw [hv] at hw
      simp at hw
  · simp at h
  · simp at h

/-! ### the recursive functions only append errors -/

theorem wrap_grows (cfg : LoadCfg) (p : Path) (dflt : Val) (r : LState × Res Val) (st : LState)
    (h : Grows st r.1) : Grows st (wrap cfg p dflt r).1 := by
  unfold wrap
  split
  · split
    · rename_i st1 e
      exact h.trans ⟨[e], rfl⟩
    · exact h
  · exact h

theorem emitThen_grows (cfg : LoadCfg) (p : Path) (e : LErr) (v : Val) (st : LState) :
    Grows st (emitThen cfg p e v st).1 := by
  unfold emitThen
  have h2 := emit_grows cfg p e st
  split <;> rename_i heq2 <;> rw [heq2] at h2 <;> exact h2

theorem emitThen_ok (cfg : LoadCfg) (p : Path) (e : LErr) (v ex : Val) (st st' : LState)
    (h : emitThen cfg p e v st = (st', .ok ex)) : st'.errors ≠ st.errors := by
  unfold emitThen at h
  split at h
  · rename_i st2 heq
    simp at h
    rw [← h.1]
    exact emit_ok _ _ _ _ _ heq
  · simp at h
  · simp at h

theorem dictPolicy_grows (cfg : LoadCfg) (p : Path) (pol : Policy) (known : List String) (d : Val)
    (extra : List (String × Val)) (st : LState) : Grows st (dictPolicy cfg p pol known d extra st).1 := by
  unfold dictPolicy
  cases pol
  · exact Grows.refl _
  · simp only []
    split
    · exact Grows.refl _
    · exact emitThen_grows _ _ _ _ _
  · exact Grows.refl _

theorem dictPolicy_ok (cfg : LoadCfg) (p : Path) (pol : Policy) (known : List String) (d : Val)
    (extra : List (String × Val)) (st st' : LState) (ex : Val)
    (h : dictPolicy cfg p pol known d extra st = (st', .ok ex)) (he : st'.errors = st.errors) :
    st' = st ∧ ex = .dict (extra ++ (if pol = .collect then unknownItems known d else [])) ∧
      (pol = .forbid → (unknownKeys known d).isEmpty = true) := by
  unfold dictPolicy at h
  cases pol
  · simp at h
    simp [← h.1, ← h.2]
  · simp only [] at h
    split at h
    · rename_i hemp
      simp at h
      simp [← h.1, ← h.2, hemp]
    · exact absurd he (emitThen_ok _ _ _ _ _ _ _ h)
  · simp at h
    simp [← h.1, ← h.2]

theorem listLength_grows (cfg : LoadCfg) (p : Path) (pol : Policy) (n : Nat) (d : Val) (extra : List Val)
    (st : LState) : Grows st (listLength cfg p pol n d extra st).1 := by
  unfold listLength
  split
  · split
    · split <;> exact emitThen_grows _ _ _ _ _
    · exact Grows.refl _
  · split
    · exact emitThen_grows _ _ _ _ _
    · exact Grows.refl _

theorem listLength_ok (cfg : LoadCfg) (p : Path) (pol : Policy) (n : Nat) (d : Val) (extra : List Val)
    (st st' : LState) (ex : Val)
    (h : listLength cfg p pol n d extra st = (st', .ok ex)) (he : st'.errors = st.errors) :
    st' = st ∧ ex = .list extra ∧ n ≤ d.len ∧ (pol = .forbid → d.len = n) := by
  unfold listLength at h
  split at h
  · rename_i hpol
    split at h
    · split at h <;> exact absurd he (emitThen_ok _ _ _ _ _ _ _ h)
    · rename_i hlen
      simp at h hlen
      exact ⟨h.1.symm, h.2.symm, by omega, fun _ => hlen⟩
  · rename_i hpol
    split at h
    · exact absurd he (emitThen_ok _ _ _ _ _ _ _ h)
    · rename_i hlen
      simp at h
      refine ⟨h.1.symm, h.2.symm, by omega, ?_⟩
      intro hp
      simp [hp] at hpol

mutual
theorem loadBranch_grows (cfg : LoadCfg) : ∀ (c : InpCrown) (p : Path) (d : Val) (st : LState),
    Grows st (loadBranch cfg p d c st).1
  | .dict m pol, p, d, st => by
    unfold loadBranch
    apply wrap_grows
    have h1 := loadDictChildren_grows cfg m p d (requiredKeys cfg m) false false [] st
    split
    · rename_i heq; rw [heq] at h1; exact h1
    · rename_i heq; rw [heq] at h1; exact h1
    · rename_i st1 checked extra heq
      rw [heq] at h1
      split
      · rw [raiseBadType_state]; exact h1
      · exact h1.trans (dictPolicy_grows _ _ _ _ _ _ _)
  | .list m pol, p, d, st => by
    unfold loadBranch
    apply wrap_grows
    split
    · rw [raiseBadType_state]; exact Grows.refl _
    · have h1 := loadListChildren_grows cfg m p d m.length 0 false [] st
      split
      · rename_i heq; rw [heq] at h1; exact h1
      · rename_i heq; rw [heq] at h1; exact h1
      · rename_i st1 checked extra heq
        rw [heq] at h1
        split
        · rw [raiseBadType_state]; exact h1
        · exact h1.trans (listLength_grows _ _ _ _ _ _ _)
  | .field _, p, d, st => by unfold loadBranch; exact Grows.refl _
  | .none, p, d, st => by unfold loadBranch; exact Grows.refl _

theorem loadDictChildren_grows (cfg : LoadCfg) : ∀ (m : List (String × InpCrown)) (p : Path) (d : Val)
    (req : List String) (checked hnf : Bool) (extra : List (String × Val)) (st : LState),
    Grows st (loadDictChildren cfg p d req m checked hnf extra st).1
  | [], p, d, req, checked, hnf, extra, st => by unfold loadDictChildren; exact Grows.refl _
  | (k, .none) :: r, p, d, req, checked, hnf, extra, st => by
    unfold loadDictChildren
    exact loadDictChildren_grows cfg r p d req checked hnf extra st
  | (k, .field id) :: r, p, d, req, checked, hnf, extra, st => by
    unfold loadDictChildren
    have h1 := fieldFromDict_grows cfg p d req k id checked hnf st
    split
    · rename_i st1 hnf1 heq
      rw [heq] at h1
      exact h1.trans (loadDictChildren_grows cfg r p d req true hnf1 extra st1)
    · rename_i heq; rw [heq] at h1; exact h1
    · rename_i heq; rw [heq] at h1; exact h1
  | (k, .dict m pol) :: r, p, d, req, checked, hnf, extra, st => by
    unfold loadDictChildren
    have h1 := getFromDict_grows cfg p d req k checked hnf st
    split
    · rename_i st1 v hnf1 heq
      rw [heq] at h1
      have h2 := loadBranch_grows cfg (.dict m pol) (p ++ [.s k]) v st1
      split
      · rename_i st2 ex heq2
        rw [heq2] at h2
        exact (h1.trans h2).trans (loadDictChildren_grows cfg r p d req true hnf1 _ st2)
      · rename_i heq2; rw [heq2] at h2; exact h1.trans h2
      · rename_i heq2; rw [heq2] at h2; exact h1.trans h2
    · rename_i st1 hnf1 heq
      rw [heq] at h1
      exact h1.trans (loadDictChildren_grows cfg r p d req true hnf1 extra st1)
    · rename_i heq; rw [heq] at h1; exact h1
    · rename_i heq; rw [heq] at h1; exact h1
  | (k, .list m pol) :: r, p, d, req, checked, hnf, extra, st => by
    unfold loadDictChildren
    have h1 := getFromDict_grows cfg p d req k checked hnf st
    split
    · rename_i st1 v hnf1 heq
      rw [heq] at h1
      have h2 := loadBranch_grows cfg (.list m pol) (p ++ [.s k]) v st1
      split
      · rename_i st2 ex heq2
        rw [heq2] at h2
        exact (h1.trans h2).trans (loadDictChildren_grows cfg r p d req true hnf1 _ st2)
      · rename_i heq2; rw [heq2] at h2; exact h1.trans h2
      · rename_i heq2; rw [heq2] at h2; exact h1.trans h2
    · rename_i st1 hnf1 heq
      rw [heq] at h1
      exact h1.trans (loadDictChildren_grows cfg r p d req true hnf1 extra st1)
    · rename_i heq; rw [heq] at h1; exact h1
    · rename_i heq; rw [heq] at h1; exact h1

theorem loadListChildren_grows (cfg : LoadCfg) : ∀ (m : List InpCrown) (p : Path) (d : Val) (n i : Nat)
    (checked : Bool) (extra : List Val) (st : LState),
    Grows st (loadListChildren cfg p d n m i checked extra st).1
  | [], p, d, n, i, checked, extra, st => by unfold loadListChildren; exact Grows.refl _
  | .none :: r, p, d, n, i, checked, extra, st => by
    unfold loadListChildren
    exact loadListChildren_grows cfg r p d n (i + 1) checked _ st
  | .field id :: r, p, d, n, i, checked, extra, st => by
    unfold loadListChildren
    have h1 := fieldFromList_grows cfg p d n i id checked st
    split
    · rename_i st1 heq
      rw [heq] at h1
      exact h1.trans (loadListChildren_grows cfg r p d n (i + 1) true _ st1)
    · rename_i heq; rw [heq] at h1; exact h1
    · rename_i heq; rw [heq] at h1; exact h1
  | .dict m pol :: r, p, d, n, i, checked, extra, st => by
    unfold loadListChildren
    have h1 := getFromList_grows cfg p d n i checked st
    split
    · rename_i st1 v heq
      rw [heq] at h1
      have h2 := loadBranch_grows cfg (.dict m pol) (p ++ [.i i]) v st1
      split
      · rename_i st2 ex heq2
        rw [heq2] at h2
        exact (h1.trans h2).trans (loadListChildren_grows cfg r p d n (i + 1) true _ st2)
      · rename_i heq2; rw [heq2] at h2; exact h1.trans h2
      · rename_i heq2; rw [heq2] at h2; exact h1.trans h2
    · rename_i st1 heq
      rw [heq] at h1
      exact h1.trans (loadListChildren_grows cfg r p d n (i + 1) true _ st1)
    · rename_i heq; rw [heq] at h1; exact h1
    · rename_i heq; rw [heq] at h1; exact h1
  | .list m pol :: r, p, d, n, i, checked, extra, st => by
    unfold loadListChildren
    have h1 := getFromList_grows cfg p d n i checked st
    split
    · rename_i st1 v heq
      rw [heq] at h1
      have h2 := loadBranch_grows cfg (.list m pol) (p ++ [.i i]) v st1
      split
      · rename_i st2 ex heq2
        rw [heq2] at h2
        exact (h1.trans h2).trans (loadListChildren_grows cfg r p d n (i + 1) true _ st2)
      · rename_i heq2; rw [heq2] at h2; exact h1.trans h2
      · rename_i heq2; rw [heq2] at h2; exact h1.trans h2
    · rename_i st1 heq
      rw [heq] at h1
      exact h1.trans (loadListChildren_grows cfg r p d n (i + 1) true _ st1)
    · rename_i heq; rw [heq] at h1; exact h1
    · rename_i heq; rw [heq] at h1; exact h1
end

/-! ### denotational reading of a crown on a datum -/

mutual
/-- the constructor arguments a crown assigns on a datum, in generation order -/
def specArgs (cfg : LoadCfg) : InpCrown → Val → List (String × Val)
  | .dict m _, d => specArgsDict cfg d m
  | .list m _, d => specArgsList cfg d 0 m
  | .field _, _ => []
  | .none, _ => []
def specArgsDict (cfg : LoadCfg) (d : Val) : List (String × InpCrown) → List (String × Val)
  | [] => []
  | (_, .none) :: r => specArgsDict cfg d r
  | (k, .field id) :: r => specFieldDict cfg d k id ++ specArgsDict cfg d r
  | (k, .dict m pol) :: r =>
    (match d.getItem (.s k) with
     | .found v => specArgs cfg (.dict m pol) v
     | _ => []) ++ specArgsDict cfg d r
  | (k, .list m pol) :: r =>
    (match d.getItem (.s k) with
     | .found v => specArgs cfg (.list m pol) v
     | _ => []) ++ specArgsDict cfg d r
def specArgsList (cfg : LoadCfg) (d : Val) : Nat → List InpCrown → List (String × Val)
  | _, [] => []
  | i, .none :: r => specArgsList cfg d (i + 1) r
  | i, .field id :: r => specFieldList cfg d i id ++ specArgsList cfg d (i + 1) r
  | i, .dict m pol :: r =>
    (match d.getItem (.i i) with
     | .found v => specArgs cfg (.dict m pol) v
     | _ => []) ++ specArgsList cfg d (i + 1) r
  | i, .list m pol :: r =>
    (match d.getItem (.i i) with
     | .found v => specArgs cfg (.list m pol) v
     | _ => []) ++ specArgsList cfg d (i + 1) r
end

mutual
/-- the extra data of a node: one entry per nested branch (at its key / position) and, for a
    collecting dict node, the items of the datum whose key is unknown to the node -/
def specExtra : InpCrown → Val → Val
  | .dict m pol, d => .dict (specExtraDict d m ++ (if pol = .collect then unknownItems (knownKeys m) d else []))
  | .list m _, d => .list (specExtraList d 0 m)
  | .field _, _ => .dict []
  | .none, _ => .dict []
def specExtraDict (d : Val) : List (String × InpCrown) → List (String × Val)
  | [] => []
  | (_, .none) :: r => specExtraDict d r
  | (_, .field _) :: r => specExtraDict d r
  | (k, .dict m pol) :: r =>
    (match d.getItem (.s k) with
     | .found v => [(k, specExtra (.dict m pol) v)]
     | _ => []) ++ specExtraDict d r
  | (k, .list m pol) :: r =>
    (match d.getItem (.s k) with
     | .found v => [(k, specExtra (.list m pol) v)]
     | _ => []) ++ specExtraDict d r
def specExtraList (d : Val) : Nat → List InpCrown → List Val
  | _, [] => []
  | i, .none :: r => .dict [] :: specExtraList d (i + 1) r
  | i, .field _ :: r => .dict [] :: specExtraList d (i + 1) r
  | i, .dict m pol :: r =>
    (match d.getItem (.i i) with
     | .found v => specExtra (.dict m pol) v
     | _ => .none) :: specExtraList d (i + 1) r
  | i, .list m pol :: r =>
    (match d.getItem (.i i) with
     | .found v => specExtra (.list m pol) v
     | _ => .none) :: specExtraList d (i + 1) r
end

mutual
/-- the datum has the shape the crown asks for: every container of the right kind, every required
    element present, every field value accepted by its loader, nothing forbidden -/
def specOk (cfg : LoadCfg) : InpCrown → Val → Bool
  | .dict m pol, d =>
    d.isMapping && specOkDict cfg d m && (pol != .forbid || (unknownKeys (knownKeys m) d).isEmpty)
  | .list m pol, d =>
    d.isSequence && !(cfg.strict && d.isStr) && specOkList cfg d 0 m && decide (m.length ≤ d.len) &&
      (pol != .forbid || d.len == m.length)
  | .field _, _ => false
  | .none, _ => false
def specOkDict (cfg : LoadCfg) (d : Val) : List (String × InpCrown) → Bool
  | [] => true
  | (_, .none) :: r => specOkDict cfg d r
  | (k, .field id) :: r => okFieldDict cfg d k id && specOkDict cfg d r
  | (k, .dict m pol) :: r =>
    (match d.getItem (.s k) with
     | .found v => specOk cfg (.dict m pol) v
     | _ => false) && specOkDict cfg d r
  | (k, .list m pol) :: r =>
    (match d.getItem (.s k) with
     | .found v => specOk cfg (.list m pol) v
     | _ => false) && specOkDict cfg d r
def specOkList (cfg : LoadCfg) (d : Val) : Nat → List InpCrown → Bool
  | _, [] => true
  | i, .none :: r => specOkList cfg d (i + 1) r
  | i, .field id :: r =>
    (match d.getItem (.i i) with
     | .found v => loaderOk cfg id v
     | _ => true) && specOkList cfg d (i + 1) r
  | i, .dict m pol :: r =>
    (match d.getItem (.i i) with
     | .found v => specOk cfg (.dict m pol) v
     | _ => true) && specOkList cfg d (i + 1) r
  | i, .list m pol :: r =>
    (match d.getItem (.i i) with
     | .found v => specOk cfg (.list m pol) v
     | _ => true) && specOkList cfg d (i + 1) r
end

/-! ### a successful run computes the denotational reading -/

theorem wrap_ok (cfg : LoadCfg) (p : Path) (dflt : Val) (r : LState × Res Val) (st0 st' : LState) (ex : Val)
    (hg : Grows st0 r.1) (h : wrap cfg p dflt r = (st', .ok ex)) (he : st'.errors = st0.errors) :
    r = (st', .ok ex) := by
  unfold wrap at h
  split at h
  · split at h
    · rename_i st1 e
      exfalso
      simp at h
      obtain ⟨l, hl⟩ := hg
      simp at hl
      rw [← h.1] at he
      simp [hl] at he
    · exact h
  · exact h

mutual
theorem loadBranch_spec (cfg : LoadCfg) : ∀ (c : InpCrown) (p : Path) (d : Val) (st st' : LState) (ex : Val),
    loadBranch cfg p d c st = (st', .ok ex) → st'.errors = st.errors →
    st'.args = st.args ++ specArgs cfg c d ∧ ex = specExtra c d ∧ specOk cfg c d = true
  | .dict m pol, p, d, st, st', ex, h, he => by
    unfold loadBranch at h
    have g1 := loadDictChildren_grows cfg m p d (requiredKeys cfg m) false false [] st
    have hw := wrap_ok cfg p _ _ st st' ex (by
      split
      · rename_i heq; rw [heq] at g1; exact g1
      · rename_i heq; rw [heq] at g1; exact g1
      · rename_i st1 checked extra heq
        rw [heq] at g1
        split
        · rw [raiseBadType_state]; exact g1
        · exact g1.trans (dictPolicy_grows _ _ _ _ _ _ _)) h he
    clear h
    split at hw
    · simp at hw
    · simp at hw
    · rename_i st1 checked extra heq
      rw [heq] at g1
      split at hw
      · exact absurd hw (raiseBadType_not_ok _ _ _ _ _ _)
      · rename_i hchk
        have g2 := dictPolicy_grows cfg p pol (knownKeys m) d extra st1
        rw [hw] at g2
        obtain ⟨e1, e2⟩ := Grows.eq_of_eq g1 g2 he
        obtain ⟨rfl, hex, hforbid⟩ := dictPolicy_ok _ _ _ _ _ _ _ _ _ hw e2
        obtain ⟨a1, x1, o1, c1⟩ := loadDictChildren_spec cfg m _ _ _ _ _ _ _ _ _ heq e1 (by simp)
        have hmap : d.isMapping = true := by
          cases hc : checked
          · simpa [hc] using hchk
          · exact c1 hc
        refine ⟨by simpa [specArgs] using a1, ?_, ?_⟩
        · simp [specExtra, hex, x1]
        · simp only [specOk, hmap, o1, Bool.and_self, Bool.true_and]
          cases pol <;> simp_all
  | .list m pol, p, d, st, st', ex, h, he => by
    unfold loadBranch at h
    have g1 := loadListChildren_grows cfg m p d m.length 0 false [] st
    have hw := wrap_ok cfg p _ _ st st' ex (by
      split
      · rw [raiseBadType_state]; exact Grows.refl _
      · split
        · rename_i heq; rw [heq] at g1; exact g1
        · rename_i heq; rw [heq] at g1; exact g1
        · rename_i st1 checked extra heq
          rw [heq] at g1
          split
          · rw [raiseBadType_state]; exact g1
          · exact g1.trans (listLength_grows _ _ _ _ _ _ _)) h he
    clear h
    split at hw
    · exact absurd hw (raiseBadType_not_ok _ _ _ _ _ _)
    · rename_i hstr
      split at hw
      · simp at hw
      · simp at hw
      · rename_i st1 checked extra heq
        rw [heq] at g1
        split at hw
        · exact absurd hw (raiseBadType_not_ok _ _ _ _ _ _)
        · rename_i hchk
          have g2 := listLength_grows cfg p pol m.length d extra st1
          rw [hw] at g2
          obtain ⟨e1, e2⟩ := Grows.eq_of_eq g1 g2 he
          obtain ⟨rfl, hex, hlen, hforbid⟩ := listLength_ok _ _ _ _ _ _ _ _ _ hw e2
          obtain ⟨a1, x1, o1, c1⟩ := loadListChildren_spec cfg m _ _ _ _ _ _ _ _ _ _ heq e1 (by simp)
          have hseq : d.isSequence = true := by
            cases hc : checked
            · simpa [hc] using hchk
            · exact c1 hc
          refine ⟨by simpa [specArgs] using a1, ?_, ?_⟩
          · simp [specExtra, hex, x1]
          · have hs : (cfg.strict && d.isStr) = false := by simpa using hstr
            simp only [specOk, hseq, hs, o1, Bool.not_false, Bool.and_self, Bool.true_and, hlen, decide_true]
            cases pol <;> simp_all
  | .field _, p, d, st, st', ex, h, he => by
    unfold loadBranch at h
    simp at h
  | .none, p, d, st, st', ex, h, he => by
    unfold loadBranch at h
    simp at h

theorem loadDictChildren_spec (cfg : LoadCfg) : ∀ (m : List (String × InpCrown)) (p : Path) (d : Val)
    (req : List String) (checked : Bool) (extra : List (String × Val)) (st st' : LState) (checked' : Bool)
    (extra' : List (String × Val)),
    loadDictChildren cfg p d req m checked false extra st = (st', .ok (checked', extra')) →
    st'.errors = st.errors → (checked = true → d.isMapping = true) →
    st'.args = st.args ++ specArgsDict cfg d m ∧ extra' = extra ++ specExtraDict d m ∧
      specOkDict cfg d m = true ∧ (checked' = true → d.isMapping = true)
  | [], p, d, req, checked, extra, st, st', checked', extra', h, he, hc => by
    unfold loadDictChildren at h
    simp at h
    obtain ⟨rfl, rfl, rfl⟩ := h
    simp [specArgsDict, specExtraDict, specOkDict]
    exact hc
  | (k, .none) :: r, p, d, req, checked, extra, st, st', checked', extra', h, he, hc => by
    unfold loadDictChildren at h
    have := loadDictChildren_spec cfg r _ _ _ _ _ _ _ _ _ h he hc
    simpa [specArgsDict, specExtraDict, specOkDict] using this
  | (k, .field id) :: r, p, d, req, checked, extra, st, st', checked', extra', h, he, hc => by
    unfold loadDictChildren at h
    have g1 := fieldFromDict_grows cfg p d req k id checked false st
    split at h
    · rename_i st1 hnf1 heq
      rw [heq] at g1
      have g3 := loadDictChildren_grows cfg r p d req true hnf1 extra st1
      rw [h] at g3
      obtain ⟨e1, e3⟩ := Grows.eq_of_eq g1 g3 he
      obtain ⟨rfl, a1, o1, m1⟩ := fieldFromDict_ok _ _ _ _ _ _ _ _ _ _ heq e1
      obtain ⟨a3, x3, o3, c3⟩ := loadDictChildren_spec cfg r _ _ _ _ _ _ _ _ _ h e3 (fun _ => m1)
      refine ⟨?_, ?_, ?_, c3⟩
      · simp [specArgsDict, a3, a1]
      · simp [specExtraDict, x3]
      · simp [specOkDict, o3, o1]
    · simp at h
    · simp at h
  | (k, .dict m pol) :: r, p, d, req, checked, extra, st, st', checked', extra', h, he, hc => by
    unfold loadDictChildren at h
    have g1 := getFromDict_grows cfg p d req k checked false st
    split at h
    · rename_i st1 v hnf1 heq
      rw [heq] at g1
      have g2 := loadBranch_grows cfg (.dict m pol) (p ++ [.s k]) v st1
      split at h
      · rename_i st2 ex heq2
        rw [heq2] at g2
        have g3 := loadDictChildren_grows cfg r p d req true hnf1 (insertExtra k ex extra) st2
        rw [h] at g3
        obtain ⟨e12, e3⟩ := Grows.eq_of_eq (g1.trans g2) g3 he
        obtain ⟨e1, e2⟩ := Grows.eq_of_eq g1 g2 e12
        obtain ⟨rfl, rfl, v', hv', hov⟩ := getFromDict_ok _ _ _ _ _ _ _ _ _ _ heq e1
        simp at hov
        subst hov
        obtain ⟨a2, x2, o2⟩ := loadBranch_spec cfg (.dict m pol) _ _ _ _ _ heq2 e2
        obtain ⟨a3, x3, o3, c3⟩ := loadDictChildren_spec cfg r _ _ _ _ _ _ _ _ _ h e3
          (fun _ => isMapping_of_found_s hv')
        refine ⟨?_, ?_, ?_, c3⟩
        · simp [specArgsDict, hv', a3, a2]
        · simp [specExtraDict, hv', x3, x2, insertExtra]
        · simp [specOkDict, hv', o3, o2]
      · simp at h
      · simp at h
    · rename_i st1 hnf1 heq
      exfalso
      rw [heq] at g1
      have g3 := loadDictChildren_grows cfg r p d req true hnf1 extra st1
      rw [h] at g3
      obtain ⟨e1, _⟩ := Grows.eq_of_eq g1 g3 he
      obtain ⟨_, _, v', _, hov⟩ := getFromDict_ok _ _ _ _ _ _ _ _ _ _ heq e1
      simp at hov
    · simp at h
    · simp at h
  | (k, .list m pol) :: r, p, d, req, checked, extra, st, st', checked', extra', h, he, hc => by
    unfold loadDictChildren at h
    have g1 := getFromDict_grows cfg p d req k checked false st
    split at h
    · rename_i st1 v hnf1 heq
      rw [heq] at g1
      have g2 := loadBranch_grows cfg (.list m pol) (p ++ [.s k]) v st1
      split at h
      · rename_i st2 ex heq2
        rw [heq2] at g2
        have g3 := loadDictChildren_grows cfg r p d req true hnf1 (insertExtra k ex extra) st2
        rw [h] at g3
        obtain ⟨e12, e3⟩ := Grows.eq_of_eq (g1.trans g2) g3 he
        obtain ⟨e1, e2⟩ := Grows.eq_of_eq g1 g2 e12
        obtain ⟨rfl, rfl, v', hv', hov⟩ := getFromDict_ok _ _ _ _ _ _ _ _ _ _ heq e1
        simp at hov
        subst hov
        obtain ⟨a2, x2, o2⟩ := loadBranch_spec cfg (.list m pol) _ _ _ _ _ heq2 e2
        obtain ⟨a3, x3, o3, c3⟩ := loadDictChildren_spec cfg r _ _ _ _ _ _ _ _ _ h e3
          (fun _ => isMapping_of_found_s hv')
        refine ⟨?_, ?_, ?_, c3⟩
        · simp [specArgsDict, hv', a3, a2]
        · simp [specExtraDict, hv', x3, x2, insertExtra]
        · simp [specOkDict, hv', o3, o2]
      · simp at h
      · simp at h
    · rename_i st1 hnf1 heq
      exfalso
      rw [heq] at g1
      have g3 := loadDictChildren_grows cfg r p d req true hnf1 extra st1
      rw [h] at g3
      obtain ⟨e1, _⟩ := Grows.eq_of_eq g1 g3 he
      obtain ⟨_, _, v', _, hov⟩ := getFromDict_ok _ _ _ _ _ _ _ _ _ _ heq e1
      simp at hov
    · simp at h
    · simp at h

theorem loadListChildren_spec (cfg : LoadCfg) : ∀ (m : List InpCrown) (p : Path) (d : Val) (n i : Nat)
    (checked : Bool) (extra : List Val) (st st' : LState) (checked' : Bool) (extra' : List Val),
    loadListChildren cfg p d n m i checked extra st = (st', .ok (checked', extra')) →
    st'.errors = st.errors → (checked = true → d.isSequence = true) →
    st'.args = st.args ++ specArgsList cfg d i m ∧ extra' = extra ++ specExtraList d i m ∧
      specOkList cfg d i m = true ∧ (checked' = true → d.isSequence = true)
  | [], p, d, n, i, checked, extra, st, st', checked', extra', h, he, hc => by
    unfold loadListChildren at h
    simp at h
    obtain ⟨rfl, rfl, rfl⟩ := h
    simp [specArgsList, specExtraList, specOkList]
    exact hc
  | .none :: r, p, d, n, i, checked, extra, st, st', checked', extra', h, he, hc => by
    unfold loadListChildren at h
    have := loadListChildren_spec cfg r _ _ _ _ _ _ _ _ _ _ h he hc
    simpa [specArgsList, specExtraList, specOkList] using this
  | .field id :: r, p, d, n, i, checked, extra, st, st', checked', extra', h, he, hc => by
    unfold loadListChildren at h
    have g1 := fieldFromList_grows cfg p d n i id checked st
    split at h
    · rename_i st1 heq
      rw [heq] at g1
      have g3 := loadListChildren_grows cfg r p d n (i + 1) true (extra ++ [.dict []]) st1
      rw [h] at g3
      obtain ⟨e1, e3⟩ := Grows.eq_of_eq g1 g3 he
      obtain ⟨a1, m1, o1⟩ := fieldFromList_ok _ _ _ _ _ _ _ _ _ heq e1
      obtain ⟨a3, x3, o3, c3⟩ := loadListChildren_spec cfg r _ _ _ _ _ _ _ _ _ _ h e3 (fun _ => m1)
      refine ⟨?_, ?_, ?_, c3⟩
      · simp [specArgsList, a3, a1]
      · simp [specExtraList, x3]
      · simp only [specOkList, o3, Bool.and_true]
        split
        · rename_i v hv; exact o1 v hv
        · rfl
    · simp at h
    · simp at h
  | .dict m pol :: r, p, d, n, i, checked, extra, st, st', checked', extra', h, he, hc => by
    unfold loadListChildren at h
    have g1 := getFromList_grows cfg p d n i checked st
    split at h
    · rename_i st1 v heq
      rw [heq] at g1
      have g2 := loadBranch_grows cfg (.dict m pol) (p ++ [.i i]) v st1
      split at h
      · rename_i st2 ex heq2
        rw [heq2] at g2
        have g3 := loadListChildren_grows cfg r p d n (i + 1) true (extra ++ [ex]) st2
        rw [h] at g3
        obtain ⟨e12, e3⟩ := Grows.eq_of_eq (g1.trans g2) g3 he
        obtain ⟨e1, e2⟩ := Grows.eq_of_eq g1 g2 e12
        obtain ⟨rfl, hres⟩ := getFromList_ok _ _ _ _ _ _ _ _ _ heq
        rcases hres with ⟨v', hv', hov⟩ | ⟨_, hov⟩
        · simp at hov
          subst hov
          obtain ⟨a2, x2, o2⟩ := loadBranch_spec cfg (.dict m pol) _ _ _ _ _ heq2 e2
          obtain ⟨a3, x3, o3, c3⟩ := loadListChildren_spec cfg r _ _ _ _ _ _ _ _ _ _ h e3
            (fun _ => isSequence_of_found_i hv')
          refine ⟨?_, ?_, ?_, c3⟩
          · simp [specArgsList, hv', a3, a2]
          · simp [specExtraList, hv', x3, x2]
          · simp [specOkList, hv', o3, o2]
        · simp at hov
      · simp at h
      · simp at h
    · rename_i st1 heq
      rw [heq] at g1
      have g3 := loadListChildren_grows cfg r p d n (i + 1) true (extra ++ [.none]) st1
      rw [h] at g3
      obtain ⟨e1, e3⟩ := Grows.eq_of_eq g1 g3 he
      obtain ⟨rfl, hres⟩ := getFromList_ok _ _ _ _ _ _ _ _ _ heq
      rcases hres with ⟨v', _, hov⟩ | ⟨hv, _⟩
      · simp at hov
      · obtain ⟨a3, x3, o3, c3⟩ := loadListChildren_spec cfg r _ _ _ _ _ _ _ _ _ _ h e3
          (fun _ => isSequence_of_indexError hv)
        refine ⟨?_, ?_, ?_, c3⟩
        · simp [specArgsList, hv, a3]
        · simp [specExtraList, hv, x3]
        · simp [specOkList, hv, o3]
    · simp at h
    · simp at h
  | .list m pol :: r, p, d, n, i, checked, extra, st, st', checked', extra', h, he, hc => by
    unfold loadListChildren at h
    have g1 := getFromList_grows cfg p d n i checked st
    split at h
    · rename_i st1 v heq
      rw [heq] at g1
      have g2 := loadBranch_grows cfg (.list m pol) (p ++ [.i i]) v st1
      split at h
      · rename_i st2 ex heq2
        rw [heq2] at g2
        have g3 := loadListChildren_grows cfg r p d n (i + 1) true (extra ++ [ex]) st2
        rw [h] at g3
        obtain ⟨e12, e3⟩ := Grows.eq_of_eq (g1.trans g2) g3 he
        obtain ⟨e1, e2⟩ := Grows.eq_of_eq g1 g2 e12
        obtain ⟨rfl, hres⟩ := getFromList_ok _ _ _ _ _ _ _ _ _ heq
        rcases hres with ⟨v', hv', hov⟩ | ⟨_, hov⟩
        · simp at hov
          subst hov
          obtain ⟨a2, x2, o2⟩ := loadBranch_spec cfg (.list m pol) _ _ _ _ _ heq2 e2
          obtain ⟨a3, x3, o3, c3⟩ := loadListChildren_spec cfg r _ _ _ _ _ _ _ _ _ _ h e3
            (fun _ => isSequence_of_found_i hv')
          refine ⟨?_, ?_, ?_, c3⟩
          · simp [specArgsList, hv', a3, a2]
          · simp [specExtraList, hv', x3, x2]
          · simp [specOkList, hv', o3, o2]
        · simp at hov
      · simp at h
      · simp at h
    · rename_i st1 heq
      rw [heq] at g1
      have g3 := loadListChildren_grows cfg r p d n (i + 1) true (extra ++ [.none]) st1
      rw [h] at g3
      obtain ⟨e1, e3⟩ := Grows.eq_of_eq g1 g3 he
      obtain ⟨rfl, hres⟩ := getFromList_ok _ _ _ _ _ _ _ _ _ heq
      rcases hres with ⟨v', _, hov⟩ | ⟨hv, _⟩
      · simp at hov
      · obtain ⟨a3, x3, o3, c3⟩ := loadListChildren_spec cfg r _ _ _ _ _ _ _ _ _ _ h e3
          (fun _ => isSequence_of_indexError hv)
        refine ⟨?_, ?_, ?_, c3⟩
        · simp [specArgsList, hv, a3]
        · simp [specExtraList, hv, x3]
        · simp [specOkList, hv, o3]
    · simp at h
    · simp at h
end

/-! ### the whole generated function -/

/-- what `_gen_extra_targets_assignment` passes to the target fields -/
def specTargets (cfg : LoadCfg) (rootPolicy : Policy) (extra : Val) : List String → List (String × Val)
  | [] => []
  | t :: r =>
    (if rootPolicy == .collect then
      (match cfg.loader t extra with
       | .ok x => [(t, x)]
       | .error _ => [])
     else if (cfg.field t).required then
      (match cfg.loader t (.dict []) with
       | .ok x => [(t, x)]
       | .error _ => [])
     else []) ++ specTargets cfg rootPolicy extra r

theorem assignTargets_grows (cfg : LoadCfg) (pol : Policy) (extra : Val) : ∀ (ts : List String) (st : LState),
    Grows st (assignTargets cfg pol extra ts st).1
  | [], st => by unfold assignTargets; exact Grows.refl _
  | t :: r, st => by
    unfold assignTargets
    split
    · have g1 := assignField_grows cfg [] t extra st
      split
      · rename_i st1 heq
        rw [heq] at g1
        exact g1.trans (assignTargets_grows cfg pol extra r st1)
      · exact g1
    · split
      · have g1 := assignField_grows cfg [] t (.dict []) st
        split
        · rename_i st1 heq
          rw [heq] at g1
          exact g1.trans (assignTargets_grows cfg pol extra r st1)
        · exact g1
      · exact assignTargets_grows cfg pol extra r st

theorem assignTargets_ok (cfg : LoadCfg) (pol : Policy) (extra : Val) : ∀ (ts : List String) (st st' : LState),
    assignTargets cfg pol extra ts st = (st', .ok ()) → st'.errors = st.errors →
    st'.args = st.args ++ specTargets cfg pol extra ts
  | [], st, st', h, he => by
    unfold assignTargets at h
    simp at h
    simp [← h, specTargets]
  | t :: r, st, st', h, he => by
    unfold assignTargets at h
    unfold specTargets
    split at h
    · rename_i hpol
      have g1 := assignField_grows cfg [] t extra st
      split at h
      · rename_i st1 heq
        rw [heq] at g1
        have g2 := assignTargets_grows cfg pol extra r st1
        rw [h] at g2
        obtain ⟨e1, e2⟩ := Grows.eq_of_eq g1 g2 he
        obtain ⟨x, hx, ha⟩ := assignField_ok _ _ _ _ _ _ heq e1
        have := assignTargets_ok cfg pol extra r st1 st' h e2
        simp [hpol, hx, this, ha]
      · rename_i hne
        exact absurd h (hne _)
    · rename_i hpol
      split at h
      · rename_i hreq
        have g1 := assignField_grows cfg [] t (.dict []) st
        split at h
        · rename_i st1 heq
          rw [heq] at g1
          have g2 := assignTargets_grows cfg pol extra r st1
          rw [h] at g2
          obtain ⟨e1, e2⟩ := Grows.eq_of_eq g1 g2 he
          obtain ⟨x, hx, ha⟩ := assignField_ok _ _ _ _ _ _ heq e1
          have := assignTargets_ok cfg pol extra r st1 st' h e2
          simp [hpol, hreq, hx, this, ha]
        · rename_i hne
          exact absurd h (hne _)
      · rename_i hreq
        have := assignTargets_ok cfg pol extra r st st' h he
        simp [hpol, hreq, this]

/-- **refinement, success direction**: whenever the generated loader reaches the constructor call (in any
    debug mode, strict or not), the datum has the shape the crown asks for, the arguments are exactly the
    denotational reading of the crown followed by the extra targets, and the collected extra is the skeleton
    of unknown items -/
theorem loadModel_ok (cfg : LoadCfg) (crown : InpCrown) (data : Val) (args : List (String × Val))
    (extra : Option Val) (h : loadModel cfg crown data = .ok args extra) :
    specOk cfg crown data = true ∧
    args = specArgs cfg crown data ++ specTargets cfg crown.policy (specExtra crown data) cfg.move.targetIds ∧
    extra = (match cfg.move with
      | .kwargs => some (specExtra crown data)
      | .saturate => some (specExtra crown data)
      | _ => none) := by
  unfold loadModel at h
  split at h
  · simp at h
  · simp at h
  · rename_i st ex heq
    have g1 := loadBranch_grows cfg crown [] data {}
    rw [heq] at g1
    split at h
    · simp at h
    · simp at h
    · rename_i st' heq2
      have g2 := assignTargets_grows cfg crown.policy ex cfg.move.targetIds st
      rw [heq2] at g2
      split at h
      · simp at h
      · rename_i herr
        have he : st'.errors = ({} : LState).errors := by
          simp only [Bool.not_eq_true, Bool.not_eq_false', List.isEmpty_iff] at herr
          simpa using herr
        obtain ⟨e1, e2⟩ := Grows.eq_of_eq g1 g2 he
        obtain ⟨a1, x1, o1⟩ := loadBranch_spec cfg crown [] data {} st ex heq e1
        have a2 := assignTargets_ok cfg crown.policy ex _ st st' heq2 e2
        subst x1
        have hargs : st'.args = specArgs cfg crown data ++
            specTargets cfg crown.policy (specExtra crown data) cfg.move.targetIds := by
          rw [a2, a1]; rfl
        refine ⟨o1, ?_, ?_⟩
        · split at h <;> simp at h <;> rw [← h.1, hargs]
        · split at h <;> simp at h <;> simp_all

end Adaptix.Layout
