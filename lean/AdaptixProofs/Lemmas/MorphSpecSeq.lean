/-
  C02 — helper lemmas, part 1: the DISABLE element discipline (`seqDisable`) and the
  container builders of the model against the trail-free list vocabulary of the
  specification (`allSome`, `mapOpt`, `zipWithOpt`, `insertAll`).
-/
import AdaptixProofs.Lemmas.MorphSpec

namespace Adaptix.Morph
open Adaptix.Py
open Adaptix.Morph.C02

/-! ### `Agrees` / `Settled` basics -/

theorem spec_agrees_ok {α : Type} {a : α} {r : Option α} (h : Agrees (Outcome.ok a) r) : r = some a :=
  h.1 a rfl

theorem spec_agrees_err {α : Type} {e : LErr} {r : Option α} (h : Agrees (Outcome.err e : Outcome α) r) :
    r = none := h.2 e rfl

theorem spec_agrees_escape {α : Type} (x : String) (r : Option α) : Agrees (Outcome.escape x) r :=
  ⟨nofun, nofun⟩

theorem spec_agrees_diverge {α : Type} (r : Option α) : Agrees (Outcome.diverge) r :=
  ⟨nofun, nofun⟩

theorem spec_agrees_of_ok {α : Type} (a : α) : Agrees (Outcome.ok a) (some a) :=
  ⟨fun _ h => (by cases h; rfl), nofun⟩

theorem spec_agrees_of_err {α : Type} (e : LErr) : Agrees (Outcome.err e : Outcome α) none :=
  ⟨nofun, fun _ _ => rfl⟩

/-- with a settled outcome, agreement is an equivalence in both verdicts -/
theorem spec_agrees_settled_ok {α : Type} {o : Outcome α} {r : Option α}
    (h : Agrees o r) (hs : Settled o) (a : α) : o = .ok a ↔ r = some a := by
  constructor
  · exact h.1 a
  · intro hr
    rcases hs with ⟨a', ha'⟩ | ⟨e, he⟩
    · have := h.1 a' ha'; rw [hr] at this; cases this; exact ha'
    · have := h.2 e he; rw [hr] at this; cases this

theorem spec_agrees_settled_err {α : Type} {o : Outcome α} {r : Option α}
    (h : Agrees o r) (hs : Settled o) : (∃ e, o = .err e) ↔ r = none := by
  constructor
  · rintro ⟨e, he⟩; exact h.2 e he
  · intro hr
    rcases hs with ⟨a', ha'⟩ | ⟨e, he⟩
    · have := h.1 a' ha'; rw [hr] at this; cases this
    · exact ⟨e, he⟩

/-! ### `seqDisable` -/

/-- DISABLE processes the elements in order and ignores the trail elements: when it ends in a
    value or a LoadError, that is what "all results present" says about the specified results -/
theorem spec_seqDisable_agrees {items : List (Option TrailEl × Outcome Val)} {rs : List (Option Val)}
    (h : Forall₂ (fun it r => Agrees it.2 r) items rs) :
    Agrees (seqDisable items) (allSome rs) := by
  induction h with
  | nil => exact spec_agrees_of_ok []
  | @cons it r items rs hit _ ih =>
    obtain ⟨el, o⟩ := it
    cases o with
    | ok y =>
      have hr : r = some y := hit.1 y rfl
      subst hr
      cases hs : seqDisable items with
      | ok ys =>
        rw [hs] at ih
        have : allSome rs = some ys := ih.1 ys rfl
        simp only [seqDisable, hs, allSome, this]
        exact spec_agrees_of_ok _
      | err e =>
        rw [hs] at ih
        have : allSome rs = none := ih.2 e rfl
        simp only [seqDisable, hs, allSome, this]
        exact spec_agrees_of_err _
      | escape x => simp only [seqDisable, hs]; exact spec_agrees_escape _ _
      | diverge => simp only [seqDisable, hs]; exact spec_agrees_diverge _
    | err e =>
      have hr : r = none := hit.2 e rfl
      subst hr
      simp only [seqDisable, allSome]
      exact spec_agrees_of_err _
    | escape x => simp only [seqDisable]; exact spec_agrees_escape _ _
    | diverge => simp only [seqDisable]; exact spec_agrees_diverge _

/-- attaching the index trail elements changes nothing for `Agrees` -/
theorem spec_idxItems_forall2 {os : List (Outcome Val)} {rs : List (Option Val)}
    (h : Forall₂ (fun o r => Agrees o r) os rs) :
    Forall₂ (fun (it : Option TrailEl × Outcome Val) r => Agrees it.2 r) (idxItems os) rs := by
  unfold idxItems
  suffices H : ∀ k, Forall₂ (fun (it : Option TrailEl × Outcome Val) r => Agrees it.2 r)
      ((os.zipIdx k).map fun (o, i) => (some (TrailEl.idx i), o)) rs from H 0
  induction h with
  | nil => intro k; exact .nil
  | cons hab _ ih => intro k; simp only [List.zipIdx_cons, List.map_cons]; exact .cons hab (ih _)

theorem spec_forall2_map {f : Val → Outcome Val} {g : Val → Option Val} {xs : List Val}
    (h : ∀ x ∈ xs, Agrees (f x) (g x)) :
    Forall₂ (fun o r => Agrees o r) (xs.map f) (xs.map g) := by
  induction xs with
  | nil => exact .nil
  | cons x xs ih =>
    exact .cons (h x (by simp)) (ih fun y hy => h y (by simp [hy]))

/-- the iterable loader's element pass against `mapOpt` -/
theorem spec_seqDisable_map {f : Val → Outcome Val} {g : Val → Option Val} {xs : List Val}
    (h : ∀ x ∈ xs, Agrees (f x) (g x)) :
    Agrees (seqDisable (idxItems (xs.map f))) (mapOpt g xs) :=
  spec_seqDisable_agrees (spec_idxItems_forall2 (spec_forall2_map h))

theorem spec_forall2_zip {ld : Ty → Val → Outcome Val} {sp : Ty → Val → Option Val} :
    ∀ {ts : List Ty} {xs : List Val}, (∀ t ∈ ts, ∀ x, Agrees (ld t x) (sp t x)) →
    Forall₂ (fun o r => Agrees o r) (zipApply (ts.map fun t => ld t) xs) (zipWithOpt sp ts xs)
  | [], _, _ => by simp only [List.map_nil, zipApply, zipWithOpt]; exact .nil
  | _ :: _, [], _ => by simp only [List.map_cons, zipApply, zipWithOpt]; exact .nil
  | t :: ts, x :: xs, h => by
    simp only [List.map_cons, zipApply, zipWithOpt]
    exact .cons (h t (by simp) x) (spec_forall2_zip fun t' ht' => h t' (by simp [ht']))

/-- the tuple loader's element pass against `zipWithOpt` -/
theorem spec_seqDisable_zip {ld : Ty → Val → Outcome Val} {sp : Ty → Val → Option Val}
    {ts : List Ty} {xs : List Val} (h : ∀ t ∈ ts, ∀ x, Agrees (ld t x) (sp t x)) :
    Agrees (seqDisable (idxItems (zipApply (ts.map fun t => ld t) xs))) (allSome (zipWithOpt sp ts xs)) :=
  spec_seqDisable_agrees (spec_idxItems_forall2 (spec_forall2_zip h))

/-! ### containers -/

/-- `Factory.build` raises `TypeError` exactly where no container can be built -/
theorem spec_build_agrees (f : Factory) (ys : List Val) : Agrees (f.build ys) (container f ys) := by
  cases f <;> simp only [Factory.build, container]
  case list => exact spec_agrees_of_ok _
  case tuple => exact spec_agrees_of_ok _
  case deque => exact spec_agrees_of_ok _
  case set => split
              · exact spec_agrees_of_ok _
              · exact spec_agrees_escape _ _
  case frozenset => split
                    · exact spec_agrees_of_ok _
                    · exact spec_agrees_escape _ _

theorem spec_bindO_agrees {α β : Type} {o : Outcome α} {r : Option α} {k : α → Outcome β}
    {k' : α → Option β} (h : Agrees o r) (hk : ∀ a, r = some a → Agrees (k a) (k' a)) :
    Agrees (bindO o k) (r.bind k') := by
  cases o with
  | ok a => have hr := h.1 a rfl; rw [hr]; simpa [bindO] using hk a hr
  | err e => rw [h.2 e rfl]; exact spec_agrees_of_err _
  | escape x => exact spec_agrees_escape _ _
  | diverge => exact spec_agrees_diverge _

/-! ### dict -/

/-- the flat list DISABLE produces for the pairs: value first, then key -/
def spec_flat (pairs : List (Val × Val)) : List Val := pairs.flatMap fun p => [p.2, p.1]

theorem spec_buildDict_flat (pairs : List (Val × Val)) : ∀ acc : List (Val × Val),
    buildDict true (spec_flat pairs) acc =
      if pairs.all (fun p => p.1.hashable) then
        .ok (.dict (pairs.foldl (fun acc p => Val.dictSet acc p.1 p.2) acc))
      else .escape "TypeError" := by
  induction pairs with
  | nil => intro acc; simp [spec_flat, buildDict]
  | cons p ps ih =>
    intro acc
    obtain ⟨k, v⟩ := p
    have hf : spec_flat ((k, v) :: ps) = v :: k :: spec_flat ps := by simp [spec_flat]
    rw [hf]
    simp only [buildDict, if_true]
    by_cases hk : k.hashable = true
    · simp only [hk, if_true, List.all_cons, Bool.true_and, List.foldl_cons]
      exact ih _
    · simp [hk]

theorem spec_dictItems_forall2 {key value : Val → Outcome Val} {gk gv : Val → Option Val} :
    ∀ {kvs : List (Val × Val)}, (∀ p ∈ kvs, Agrees (key p.1) (gk p.1) ∧ Agrees (value p.2) (gv p.2)) →
    Forall₂ (fun (it : Option TrailEl × Outcome Val) r => Agrees it.2 r)
      (dictItems true key value kvs) (kvs.flatMap fun p => [gv p.2, gk p.1])
  | [], _ => by simp only [dictItems, List.flatMap_nil]; exact .nil
  | (k, v) :: rest, h => by
    have ⟨hk, hv⟩ := h (k, v) (by simp)
    simp only [dictItems, if_true, List.flatMap_cons, List.cons_append, List.nil_append]
    exact .cons hv (.cons hk (spec_dictItems_forall2 fun p hp => h p (by simp [hp])))

theorem spec_allSome_flat (gk gv : Val → Option Val) (kvs : List (Val × Val)) :
    allSome (kvs.flatMap fun p => [gv p.2, gk p.1]) = (mapOpt (pairOpt gk gv) kvs).map spec_flat := by
  induction kvs with
  | nil => simp [allSome, mapOpt, spec_flat]
  | cons p rest ih =>
    obtain ⟨k, v⟩ := p
    simp only [mapOpt] at ih
    simp only [List.flatMap_cons, List.cons_append, List.nil_append, mapOpt, List.map_cons, pairOpt]
    cases hv : gv v with
    | none => cases gk k <;> simp [allSome]
    | some v' =>
      cases hk : gk k with
      | none => simp [allSome]
      | some k' =>
        simp only [allSome, ih]
        cases allSome (List.map (pairOpt gk gv) rest) with
        | none => simp
        | some pairs => simp [spec_flat]

/-- the dict loader's pass over the items (value loaded first, then the key) -/
theorem spec_seqDisable_dict {key value : Val → Outcome Val} {gk gv : Val → Option Val}
    {kvs : List (Val × Val)}
    (h : ∀ p ∈ kvs, Agrees (key p.1) (gk p.1) ∧ Agrees (value p.2) (gv p.2)) :
    Agrees (seqDisable (dictItems true key value kvs)) ((mapOpt (pairOpt gk gv) kvs).map spec_flat) := by
  rw [← spec_allSome_flat]
  exact spec_seqDisable_agrees (spec_dictItems_forall2 h)

end Adaptix.Morph
