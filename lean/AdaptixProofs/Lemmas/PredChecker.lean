/-
  Helper lemmas for C10 about `check` / `checkB` (AdaptixModel/Pred/Checker.lean):
  the faithful `check` computes `checkB` whenever it cannot raise, `LocStackEndChecker`
  is the forward chain of the specification, the cast table agrees with the notions the
  specification uses.
-/
import AdaptixModel.Pred.Checker
import AdaptixModel.Pred.Spec

namespace Adaptix.Pred

/-! ### the generated cast table against the notions of the specification -/

theorem isCastable_typeHintLoc (l : Loc) : l.isCastable Generated.expectedLoc_ExactTypeLSC = true := by
  have : ∀ c : LocClass, (Generated.castSources Generated.expectedLoc_ExactTypeLSC).contains c = true := by
    intro c; cases c <;> decide
  exact this l.cls

theorem isCastable_typeHintLoc' (l : Loc) : l.isCastable Generated.expectedLoc_ExactOriginLSC = true := by
  have : ∀ c : LocClass, (Generated.castSources Generated.expectedLoc_ExactOriginLSC).contains c = true := by
    intro c; cases c <;> decide
  exact this l.cls

theorem isCastable_typeHintLoc'' (l : Loc) : l.isCastable Generated.expectedLoc_OriginSubclassLSC = true := by
  have : ∀ c : LocClass, (Generated.castSources Generated.expectedLoc_OriginSubclassLSC).contains c = true := by
    intro c; cases c <;> decide
  exact this l.cls

theorem isCastable_fieldLoc (l : Loc) : l.isCastable Generated.expectedLoc_ExactFieldNameLSC = l.cls.isField := by
  have : ∀ c : LocClass, (Generated.castSources Generated.expectedLoc_ExactFieldNameLSC).contains c = c.isField := by
    intro c; cases c <;> decide
  exact this l.cls

theorem isCastable_fieldLoc' (l : Loc) : l.isCastable Generated.expectedLoc_ReFieldNameLSC = l.cls.isField := by
  have : ∀ c : LocClass, (Generated.castSources Generated.expectedLoc_ReFieldNameLSC).contains c = c.isField := by
    intro c; cases c <;> decide
  exact this l.cls

theorem isCastable_genericParamLoc (l : Loc) :
    l.isCastable Generated.expectedLoc_GenericParamLSC = (l.cls == .genericParamLoc) := by
  have : ∀ c : LocClass, (Generated.castSources Generated.expectedLoc_GenericParamLSC).contains c
      = (c == .genericParamLoc) := by
    intro c; cases c <;> decide
  exact this l.cls

/-! ### Python builtins on sequences that do not raise -/

theorem pyAny_ok (l : List Bool) : pyAny (l.map Except.ok) = .ok (l.any id) := by
  induction l with
  | nil => rfl
  | cons b t ih =>
    cases b
    · simpa [pyAny, bind, Except.bind] using ih
    · simp [pyAny, bind, Except.bind, pure, Except.pure]

theorem pyAll_ok (l : List Bool) : pyAll (l.map Except.ok) = .ok (l.all id) := by
  induction l with
  | nil => rfl
  | cons b t ih =>
    cases b
    · simp [pyAll, bind, Except.bind, pure, Except.pure]
    · simpa [pyAll, bind, Except.bind] using ih

theorem pyXorFold_ok (acc : Bool) (l : List Bool) :
    pyXorFold acc (l.map Except.ok) = .ok (l.foldl (· ^^ ·) acc) := by
  induction l generalizing acc with
  | nil => rfl
  | cons b t ih => simpa [pyXorFold, bind, Except.bind] using ih (acc ^^ b)

theorem pyReduceXor_ok (l : List Bool) (h : l ≠ []) :
    pyReduceXor (l.map Except.ok) = .ok (l.foldl (· ^^ ·) false) := by
  cases l with
  | nil => exact absurd rfl h
  | cons b t => simpa [pyReduceXor, bind, Except.bind] using pyXorFold_ok b t

/-! ### `check` computes `checkB` -/

theorem lastLocCheck_ok (expected : LocClass) (f : Loc → Bool) (st : LocStack) (h : st ≠ []) :
    lastLocCheck expected f st = .ok (lastLocCheckB expected f st) := by
  unfold lastLocCheck lastLocCheckB
  cases hl : st.getLast? with
  | none => simp at hl; exact absurd hl h
  | some l => by_cases hc : l.isCastable expected <;> simp [hc]

theorem reversedSlice_ne_nil (st : LocStack) (i : Nat) (h : i < st.length) : reversedSlice st i ≠ [] := by
  intro e
  have := congrArg List.length e
  simp [reversedSlice] at this
  omega

theorem checkEach_length (W : World) (cs : List Checker) (st : LocStack) : (checkEach W cs st).length = cs.length := by
  induction cs with
  | nil => simp [checkEach]
  | cons c cs ih => simp [checkEach, ih]

theorem checkEachB_length (W : World) (cs : List Checker) (st : LocStack) : (checkEachB W cs st).length = cs.length := by
  induction cs with
  | nil => simp [checkEachB]
  | cons c cs ih => simp [checkEachB, ih]

mutual
/-- On a non-empty stack and without an empty `XorLocStackChecker` the real `check_loc_stack` raises
    nothing and returns `checkB`. -/
theorem check_eq_checkB (W : World) (c : Checker) (st : LocStack) (hw : c.wf = true) (hne : st ≠ []) :
    check W c st = .ok (checkB W c st) := by
  match c with
  | .exactFieldName _ => simp [check, checkB, lastLocCheck_ok _ _ _ hne]
  | .reFieldName _ => simp [check, checkB, lastLocCheck_ok _ _ _ hne]
  | .exactType _ => simp [check, checkB, lastLocCheck_ok _ _ _ hne]
  | .originSubclass _ => simp [check, checkB, lastLocCheck_ok _ _ _ hne]
  | .exactOrigin _ => simp [check, checkB, lastLocCheck_ok _ _ _ hne]
  | .genericParam _ => simp [check, checkB, lastLocCheck_ok _ _ _ hne]
  | .size _ => simp [check, checkB]
  | .any => simp [check, checkB]
  | .user _ => simp [check, checkB]
  | .invert c =>
    have h := check_eq_checkB W c st (by simpa [Checker.wf] using hw) hne
    simp [check, checkB, h, bind, Except.bind, pure, Except.pure]
  | .or cs =>
    have h := checkEach_eq W cs st (by simpa [Checker.wf] using hw) hne
    simp [check, checkB, h, pyAny_ok]
  | .and cs =>
    have h := checkEach_eq W cs st (by simpa [Checker.wf] using hw) hne
    simp [check, checkB, h, pyAll_ok]
  | .xor cs =>
    have hw' : cs.isEmpty = false ∧ wfAll cs = true := by simpa [Checker.wf] using hw
    have h := checkEach_eq W cs st hw'.2 hne
    have hne' : checkEachB W cs st ≠ [] := by
      intro e
      have := congrArg List.length e
      rw [checkEachB_length] at this
      cases cs with
      | nil => simp at hw'
      | cons _ _ => simp at this
    simp [check, checkB, h, pyReduceXor_ok _ hne']
  | .locStackEnd cs =>
    by_cases hl : st.length < cs.length
    · simp [check, checkB, hl]
    · have h := checkEnd_eq W cs st (by simpa [Checker.wf] using hw) (by omega)
      simp [check, checkB, hl, h, ← List.map_reverse, pyAll_ok]
theorem checkEach_eq (W : World) (cs : List Checker) (st : LocStack) (hw : wfAll cs = true) (hne : st ≠ []) :
    checkEach W cs st = (checkEachB W cs st).map Except.ok := by
  match cs with
  | [] => simp [checkEach, checkEachB]
  | c :: cs =>
    have hw' : c.wf = true ∧ wfAll cs = true := by simpa [wfAll] using hw
    simp [checkEach, checkEachB, check_eq_checkB W c st hw'.1 hne, checkEach_eq W cs st hw'.2 hne]
theorem checkEnd_eq (W : World) (cs : List Checker) (st : LocStack) (hw : wfAll cs = true) (hlen : cs.length ≤ st.length) :
    checkEnd W cs st = (checkEndB W cs st).map Except.ok := by
  match cs with
  | [] => simp [checkEnd, checkEndB]
  | c :: cs =>
    have hw' : c.wf = true ∧ wfAll cs = true := by simpa [wfAll] using hw
    have hlen' : cs.length < st.length := by simp at hlen; omega
    simp [checkEnd, checkEndB, check_eq_checkB W c _ hw'.1 (reversedSlice_ne_nil st cs.length hlen'),
      checkEnd_eq W cs st hw'.2 (by omega)]
end

/-! ### element lists -/

theorem checkEachB_eq_map (W : World) (cs : List Checker) (st : LocStack) :
    checkEachB W cs st = cs.map (fun c => checkB W c st) := by
  induction cs with
  | nil => simp [checkEachB]
  | cons c cs ih => simp [checkEachB, ih]

theorem wfAll_iff (cs : List Checker) : wfAll cs = true ↔ ∀ c ∈ cs, c.wf = true := by
  induction cs with
  | nil => simp [wfAll]
  | cons c cs ih => simp [wfAll, ih]

/-! ### `LocStackEndChecker` against the forward chain of the specification -/

/-- two lists are related element by element (core has no `Forall₂`) -/
inductive All₂ {α β : Type} (R : α → β → Prop) : List α → List β → Prop
  | nil : All₂ R [] []
  | cons {a b as bs} : R a b → All₂ R as bs → All₂ R (a :: as) (b :: bs)

theorem All₂.length_eq {α β : Type} {R : α → β → Prop} {as : List α} {bs : List β} (h : All₂ R as bs) :
    as.length = bs.length := by
  induction h with
  | nil => rfl
  | cons _ _ ih => simp [ih]

theorem All₂.append {α β : Type} {R : α → β → Prop} {as as' : List α} {bs bs' : List β}
    (h : All₂ R as bs) (h' : All₂ R as' bs') : All₂ R (as ++ as') (bs ++ bs') := by
  induction h with
  | nil => simpa using h'
  | cons hab _ ih => exact .cons hab ih

theorem All₂.imp {α β : Type} {R S : α → β → Prop} {as : List α} {bs : List β}
    (h : All₂ R as bs) (hrs : ∀ a b, R a b → S a b) : All₂ S as bs := by
  induction h with
  | nil => exact .nil
  | cons hab _ ih => exact .cons (hrs _ _ hab) ih

theorem All₂.map_left {α β γ : Type} {R : γ → β → Prop} {as : List α} {bs : List β} (f : α → γ)
    (h : All₂ (fun a b => R (f a) b) as bs) : All₂ R (as.map f) bs := by
  induction h with
  | nil => exact .nil
  | cons hab _ ih => exact .cons hab ih

/-- pointwise agreement of two element lists on non-empty stacks -/
def AgreeOn (gs fs : List (LocStack → Bool)) : Prop :=
  All₂ (fun g f => ∀ st : LocStack, st ≠ [] → g st = f st) gs fs

theorem chainFrom_congr {gs fs : List (LocStack → Bool)} (h : AgreeOn gs fs) (pre tail : LocStack) :
    chainFrom gs pre tail = chainFrom fs pre tail := by
  induction h generalizing pre tail with
  | nil => cases tail <;> simp [chainFrom]
  | cons hgf _ ih =>
    cases tail with
    | nil => simp [chainFrom]
    | cons l tl => simp [chainFrom, hgf (pre ++ [l]) (by simp), ih]

theorem matchesChain_congr {gs fs : List (LocStack → Bool)} (h : AgreeOn gs fs) (st : LocStack) :
    matchesChain gs st = matchesChain fs st := by
  have hl : gs.length = fs.length := All₂.length_eq h
  unfold matchesChain
  rw [chainFrom_congr h, hl]

theorem checkEndB_all (W : World) (cs : List Checker) (pre tail : LocStack) (hlen : tail.length = cs.length) :
    (checkEndB W cs (pre ++ tail)).all id = chainFrom (cs.map (fun c => checkB W c)) pre tail := by
  induction cs generalizing pre tail with
  | nil =>
    cases tail with
    | nil => simp [checkEndB, chainFrom]
    | cons _ _ => simp at hlen
  | cons c cs ih =>
    cases tail with
    | nil => simp at hlen
    | cons l tl =>
      have hlen' : tl.length = cs.length := by simpa using hlen
      have hslice : reversedSlice (pre ++ l :: tl) cs.length = pre ++ [l] := by
        unfold reversedSlice
        have : (pre ++ l :: tl).length - cs.length = (pre ++ [l]).length := by simp; omega
        rw [this]
        have e : pre ++ l :: tl = (pre ++ [l]) ++ tl := by simp
        rw [e, List.take_left']
        rfl
      have e : pre ++ l :: tl = (pre ++ [l]) ++ tl := by simp
      simp only [checkEndB, List.all_cons, List.map_cons, chainFrom, hslice, id]
      rw [e, ih (pre ++ [l]) tl hlen']

/-- `LocStackEndChecker(cs)` holds exactly when the last `len(cs)` locations satisfy `cs` in order. -/
theorem checkB_end_eq_chain (W : World) (cs : List Checker) (st : LocStack) :
    checkB W (.locStackEnd cs) st = matchesChain (cs.map (fun c => checkB W c)) st := by
  unfold matchesChain
  by_cases hl : st.length < cs.length
  · have : ¬ (cs.length ≤ st.length) := by omega
    simp [checkB, hl, this]
  · have hle : cs.length ≤ st.length := by omega
    have hsplit : st = st.take (st.length - cs.length) ++ st.drop (st.length - cs.length) := by simp
    have hlen : (st.drop (st.length - cs.length)).length = cs.length := by simp; omega
    have h := checkEndB_all W cs (st.take (st.length - cs.length)) (st.drop (st.length - cs.length)) hlen
    rw [← hsplit] at h
    simp [checkB, hl, hle, List.all_reverse, h]

end Adaptix.Pred
