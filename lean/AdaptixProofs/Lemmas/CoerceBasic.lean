/-
  C14 helper lemmas: equality of normalised types, tag stripping, the request bus.
-/
import AdaptixModel.Conv.CoerceSpec

namespace Adaptix.Conv

/-! ### `Ty.beq` decides equality -/

mutual
theorem Ty.beq_eq : ∀ a b : Ty, Ty.beq a b = true → a = b
  | .any, b, h => by cases b <;> simp_all [Ty.beq]
  | .none, b, h => by cases b <;> simp_all [Ty.beq]
  | .opaque n, b, h => by cases b <;> simp_all [Ty.beq]
  | .cls c a, b, h => by
    cases b with
    | cls c' a' =>
      simp only [Ty.beq, Bool.and_eq_true, beq_iff_eq] at h
      rw [h.1, Ty.beqList_eq a a' h.2]
    | _ => simp [Ty.beq] at h
  | .iter k e, b, h => by
    cases b with
    | iter k' e' =>
      simp only [Ty.beq, Bool.and_eq_true, beq_iff_eq] at h
      rw [h.1, Ty.beq_eq e e' h.2]
    | _ => simp [Ty.beq] at h
  | .ftuple a, b, h => by
    cases b with
    | ftuple a' =>
      simp only [Ty.beq] at h
      rw [Ty.beqList_eq a a' h]
    | _ => simp [Ty.beq] at h
  | .map k x y, b, h => by
    cases b with
    | map k' x' y' =>
      simp only [Ty.beq, Bool.and_eq_true, beq_iff_eq] at h
      rw [h.1.1, Ty.beq_eq x x' h.1.2, Ty.beq_eq y y' h.2]
    | _ => simp [Ty.beq] at h
  | .union a, b, h => by
    cases b with
    | union a' =>
      simp only [Ty.beq] at h
      rw [Ty.beqList_eq a a' h]
    | _ => simp [Ty.beq] at h
  | .tagged m t, b, h => by
    cases b with
    | tagged m' t' =>
      simp only [Ty.beq, Bool.and_eq_true, beq_iff_eq] at h
      rw [h.1, Ty.beq_eq t t' h.2]
    | _ => simp [Ty.beq] at h
theorem Ty.beqList_eq : ∀ a b : List Ty, Ty.beqList a b = true → a = b
  | [], [], _ => rfl
  | a :: as, b :: bs, h => by
    simp only [Ty.beqList, Bool.and_eq_true] at h
    rw [Ty.beq_eq a b h.1, Ty.beqList_eq as bs h.2]
  | [], _ :: _, h => by simp [Ty.beqList] at h
  | _ :: _, [], h => by simp [Ty.beqList] at h
end

mutual
theorem Ty.beq_refl : ∀ a : Ty, Ty.beq a a = true
  | .any => by simp [Ty.beq]
  | .none => by simp [Ty.beq]
  | .opaque _ => by simp [Ty.beq]
  | .cls _ a => by simp [Ty.beq, Ty.beqList_refl a]
  | .iter _ e => by simp [Ty.beq, Ty.beq_refl e]
  | .ftuple a => by simp [Ty.beq, Ty.beqList_refl a]
  | .map _ x y => by simp [Ty.beq, Ty.beq_refl x, Ty.beq_refl y]
  | .union a => by simp [Ty.beq, Ty.beqList_refl a]
  | .tagged _ t => by simp [Ty.beq, Ty.beq_refl t]
theorem Ty.beqList_refl : ∀ a : List Ty, Ty.beqList a a = true
  | [] => by simp [Ty.beqList]
  | a :: as => by simp [Ty.beqList, Ty.beq_refl a, Ty.beqList_refl as]
end

theorem Ty.beq_iff (a b : Ty) : Ty.beq a b = true ↔ a = b :=
  ⟨Ty.beq_eq a b, fun h => h ▸ Ty.beq_refl a⟩

theorem Ty.elemOf_iff (t : Ty) (l : List Ty) : Ty.elemOf t l = true ↔ t ∈ l := by
  unfold Ty.elemOf
  rw [List.any_eq_true]
  constructor
  · rintro ⟨u, hu, h⟩
    rw [Ty.beq_eq t u h]; exact hu
  · intro h
    exact ⟨t, h, Ty.beq_refl t⟩

/-! ### tags -/

theorem stripTags_idem : ∀ t : Ty, stripTags (stripTags t) = stripTags t
  | .tagged _ t => by simp only [stripTags]; exact stripTags_idem t
  | .any | .none | .cls _ _ | .opaque _ | .iter _ _ | .ftuple _ | .map _ _ _ | .union _ => by
    simp [stripTags]

/-- a stripped type carries no tag at the top -/
theorem stripTags_not_tagged : ∀ (t : Ty) (m : Nat) (u : Ty), stripTags t ≠ .tagged m u
  | .tagged _ t, m, u => by simp only [stripTags]; exact stripTags_not_tagged t m u
  | .any, _, _ | .none, _, _ | .cls _ _, _, _ | .opaque _, _, _ | .iter _ _, _, _
  | .ftuple _, _, _ | .map _ _ _, _, _ | .union _, _, _ => by simp [stripTags]

theorem mem_map_strip_self {t : Ty} {l : List Ty} (h : t ∈ l.map stripTags) : stripTags t = t := by
  rw [List.mem_map] at h
  obtain ⟨u, _, hu⟩ := h
  rw [← hu, stripTags_idem]

/-- tags do not change the meaning of a type -/
theorem hasTy_strip (cfg : Cfg) (S : Sem) : ∀ (t : Ty) (v : Val),
    HasTy cfg S t v ↔ HasTy cfg S (stripTags t) v
  | .tagged m t, v => by
    simp only [stripTags]
    rw [← hasTy_strip cfg S t v]
    constructor
    · intro h; cases h; assumption
    · intro h; exact .tagged h
  | .any, _ | .none, _ | .cls _ _, _ | .opaque _, _ | .iter _ _, _ | .ftuple _, _ | .map _ _ _, _
  | .union _, _ => by simp [stripTags]

/-! ### the bus -/

theorem runRecipe_ok {f : Prov → Step} {ps : List Prov} {c : Coercer}
    (h : runRecipe f ps = .ok c) : ∃ p ∈ ps, f p = .ok c := by
  induction ps with
  | nil => simp [runRecipe] at h
  | cons p ps ih =>
    unfold runRecipe at h
    split at h
    · rename_i c' hp
      cases h
      exact ⟨p, by simp, hp⟩
    · obtain ⟨q, hq, hf⟩ := ih h
      exact ⟨q, by simp [hq], hf⟩
    · cases h
    · cases h

theorem mandatory_ok {a : Answer} {k : Coercer → Step} {c : Coercer}
    (h : mandatory a k = .ok c) : ∃ c', a = .ok c' ∧ k c' = .ok c := by
  unfold mandatory at h
  split at h
  · exact ⟨_, rfl, h⟩
  · cases h
  · cases h

theorem asIs_run (v : Val) : asIsCoercer.run v = some v := rfl

end Adaptix.Conv
