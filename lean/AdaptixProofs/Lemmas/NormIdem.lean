/-
  C15 helper lemmas, part 6: idempotence — re-normalising a normal form read
  back as a hint gives the normal form again.
-/
import AdaptixProofs.Lemmas.NormRespects

set_option linter.unusedSectionVars false

namespace Adaptix.Types

variable {α : Type} [DecidableEq α] (W : World α)

/-- `n` is a fixed point: reading it back as a hint and normalising returns `n` -/
def Idem (n : Norm α) : Prop := normalize W (embed n) = n

/-- a `Literal` normal form holds no `None` value (it is a separate union member) -/
def NoNoneLit (n : Norm α) : Prop := ∀ args, n = .node .literal args → LitVal.none ∉ litArgs args

theorem noNoneLit_of_not_literal {n : Norm α} (h : isLiteralNorm n = false) : NoNoneLit n := by
  intro args e; rw [e] at h; cases h

theorem normalizeList_embedList : ∀ (ns : List (Norm α)), (∀ n, n ∈ ns → Idem W n) → normalizeList W (embedList ns) = ns
  | [], _ => rfl
  | n :: ns, h => by
    simp only [embedList, normalizeList]
    rw [h n (by simp), normalizeList_embedList ns (fun m hm => h m (by simp [hm]))]

theorem embedList_eq_nil (ns : List (Norm α)) : embedList ns = [] ↔ ns = [] := by
  cases ns <;> simp [embedList]

/-! ### literals -/

theorem idem_mkLiteral (vs : List (LitVal α)) (hnone : LitVal.none ∉ vs) : Idem W (mkLiteral W vs) := by
  have h1 : LitVal.none ∉ sortLits W vs := fun h => hnone ((mem_sortLits W _ vs).mp h)
  have h2 : sortLits W vs ≠ [.none] := by
    intro e; apply h1; rw [e]; simp
  simp only [Idem, mkLiteral, embed, litArgs_map_lit, normalize, normLiteral, h2, h1, if_false, sortLits_idem]

theorem idem_createNormLiteral (vs : List (LitVal α)) (hnone : LitVal.none ∉ vs) : Idem W (createNormLiteral W vs) :=
  idem_mkLiteral W _ (fun h => hnone ((mem_dedupLits _ vs).mp h))

theorem noNoneLit_mkLiteral (vs : List (LitVal α)) (hnone : LitVal.none ∉ vs) : NoNoneLit (mkLiteral W vs) := by
  intro args e
  rw [litArgs_mkLiteral W vs args e]
  exact fun h => hnone ((mem_sortLits W _ vs).mp h)

theorem noNoneLit_createNormLiteral (vs : List (LitVal α)) (hnone : LitVal.none ∉ vs) :
    NoNoneLit (createNormLiteral W vs) :=
  noNoneLit_mkLiteral W _ (fun h => hnone ((mem_dedupLits _ vs).mp h))

theorem idem_noneN : Idem W (noneN : Norm α) := by simp [Idem, noneN, embed, normalize]
theorem idem_anyN : Idem W (anyN : Norm α) := by simp [Idem, anyN, embed, normalize]

/-! ### unions -/

theorem embed_union (args : List (Norm α)) : embed (.node .union args) = .union false (embedList args) := by
  simp [embed]

/-- a form whose alternatives are fixed points and which is the union of its alternatives is a fixed point -/
theorem idem_of_alts (n : Norm α) (hfix : finishUnion W (alts n) = n)
    (hno : ∀ a, a ∈ alts n → isUnionNorm a = false) (hm : ∀ a, a ∈ alts n → Idem W a) : Idem W n := by
  by_cases hu : isUnionNorm n = true
  · cases n with
    | node o args =>
      cases o <;> simp [isUnionNorm] at hu
      simp only [alts] at hfix hno hm
      simp only [Idem, embed_union, normalize, normalizeList_embedList W args hm, normUnion_eq,
        unfoldUnion_of_no_union args hno, hfix]
    | ellipsis => simp [isUnionNorm] at hu
    | lit v => simp [isUnionNorm] at hu
    | mdata m => simp [isUnionNorm] at hu
  · have : alts n = [n] := alts_of_not_union (by simpa using hu)
    exact hm n (by rw [this]; simp)

theorem alts_collapse_mem_iff (m : List (Norm α)) (h1 : ∀ x, x ∈ m → isUnionNorm x = false)
    (h2 : ∀ x, x ∈ m → isLiteralNorm x = true → remake W x = x) (a : Norm α) :
    a ∈ alts (collapse W m) ↔ a ∈ m := by
  match m with
  | [] => simp [collapse, alts_mkUnion, stableSort]
  | [x] =>
    have hx : remake W x = x := by
      by_cases hl : isLiteralNorm x = true
      · exact h2 x (by simp) hl
      · exact remake_of_other W (h1 x (by simp)) (by simpa using hl)
    simp only [collapse, hx, alts_of_not_union (h1 x (by simp))]
  | a' :: b :: t =>
    simp only [collapse, alts_mkUnion]
    exact mem_stableSort _ a _

/-- the alternatives of a normalised union: the non-literal flattened members and the merged literal -/
theorem mem_alts_finishUnion (l : List (Norm α)) (hl : ∀ x, x ∈ l → isUnionNorm x = false) (a : Norm α)
    (ha : a ∈ alts (finishUnion W l)) :
    (a ∈ l ∧ isLiteralNorm a = false) ∨ a = createNormLiteral W (collectLits (dedupNorms l)) := by
  unfold finishUnion at ha
  rw [alts_collapse_mem_iff] at ha
  · rcases mem_mergeLiterals_cases W _ a ha with ⟨h, h'⟩ | h
    · exact .inl ⟨(mem_dedupNorms a l).mp h, h'⟩
    · exact .inr h
  · intro x hx
    rcases mem_mergeLiterals_cases W _ x hx with ⟨h, _⟩ | h
    · exact hl x ((mem_dedupNorms x l).mp h)
    · rw [h]; rfl
  · intro x hx hlit
    rcases mem_mergeLiterals_cases W _ x hx with ⟨_, h⟩ | h
    · rw [h] at hlit; cases hlit
    · rw [h]; exact remake_createNormLiteral W _

/-- the union of flattened members that are fixed points is a fixed point, and so are its alternatives -/
theorem idem_finishUnion (hK : DistinctOrderKeys W) (l : List (Norm α))
    (hl : ∀ x, x ∈ l → isUnionNorm x = false) (hreach : ∀ x, x ∈ alts (finishUnion W l) → Reach W x)
    (hm : ∀ a, a ∈ l → Idem W a ∧ NoNoneLit a) :
    Idem W (finishUnion W l) ∧ ∀ a, a ∈ alts (finishUnion W l) → Idem W a ∧ NoNoneLit a := by
  have hnone : LitVal.none ∉ collectLits (dedupNorms l) := by
    intro h
    obtain ⟨args, hmem, hv⟩ := (mem_collectLits _ _).mp h
    exact (hm _ ((mem_dedupNorms _ l).mp hmem)).2 args rfl hv
  have members : ∀ a, a ∈ alts (finishUnion W l) → Idem W a ∧ NoNoneLit a := by
    intro a ha
    rcases mem_alts_finishUnion W l hl a ha with ⟨h, _⟩ | h
    · exact hm a h
    · rw [h]; exact ⟨idem_createNormLiteral W _ hnone, noNoneLit_createNormLiteral W _ hnone⟩
  refine ⟨idem_of_alts W _ (finishUnion_alts_finishUnion W hK l hl hreach) (finishUnion_alts_not_union W l hl)
    (fun a ha => (members a ha).1), members⟩

theorem single_result {n : Norm α} (hn : isUnionNorm n = false) (hi : Idem W n) (hl : NoNoneLit n) :
    Idem W n ∧ ∀ a, a ∈ alts n → Idem W a ∧ NoNoneLit a := by
  refine ⟨hi, fun a ha => ?_⟩
  rw [alts_of_not_union hn, List.mem_singleton] at ha
  subst ha
  exact ⟨hi, hl⟩

/-! ### Annotated -/

theorem mdataTexts_map (ms : List Str) : mdataTexts (ms.map (Norm.mdata : Str → Norm α)) = ms := by
  induction ms with
  | nil => rfl
  | cons m ms ih => simp [mdataTexts, ih]

theorem mdataTexts_append (a b : List (Norm α)) : mdataTexts (a ++ b) = mdataTexts a ++ mdataTexts b := by
  induction a with
  | nil => rfl
  | cons x xs ih => cases x <;> simp [mdataTexts, ih]

theorem normAnnotated_append (X : Norm α) (A B args : List (Norm α)) (h : normAnnotated X A = .node .annotated args) :
    normAnnotated X (A ++ B) = .node .annotated (args ++ B) := by
  cases X with
  | node o a' =>
    cases o <;> simp only [normAnnotated, Norm.node.injEq, true_and] at h ⊢ <;> subst h <;> simp
  | ellipsis => simp only [normAnnotated, Norm.node.injEq, true_and] at h ⊢; subst h; simp
  | lit v => simp only [normAnnotated, Norm.node.injEq, true_and] at h ⊢; subst h; simp
  | mdata m => simp only [normAnnotated, Norm.node.injEq, true_and] at h ⊢; subst h; simp

theorem normAnnotated_of_not_annotated {n : Norm α} (h : ∀ args, n ≠ .node .annotated args) (ms : List (Norm α)) :
    normAnnotated n ms = .node .annotated (n :: ms) := by
  cases n with
  | node o a' =>
    cases o <;> simp only [normAnnotated]
    exact absurd rfl (h a')
  | ellipsis => rfl
  | lit v => rfl
  | mdata m => rfl

theorem idem_normAnnotated (n : Norm α) (hn : Idem W n) (ms : List Str) :
    Idem W (normAnnotated n (ms.map Norm.mdata)) := by
  by_cases hann : ∃ args, n = .node .annotated args
  · obtain ⟨args, rfl⟩ := hann
    cases args with
    | nil => simp [Idem, embed, embedAnnotated, normalize, anyN] at hn
    | cons n0 metas0 =>
      simp only [Idem, embed, embedAnnotated, normalize] at hn
      simp only [Idem, normAnnotated, List.cons_append, embed, embedAnnotated, normalize, mdataTexts_append,
        mdataTexts_map, List.map_append]
      exact normAnnotated_append _ _ _ _ hn
  · have hne : ∀ args, n ≠ .node .annotated args := fun args e => hann ⟨args, e⟩
    rw [normAnnotated_of_not_annotated hne]
    simp only [Idem, embed, embedAnnotated, normalize, mdataTexts_map]
    rw [hn, normAnnotated_of_not_annotated hne]

/-! ### type[...] -/

theorem normType_of_not_union {n : Norm α} (h : isUnionNorm n = false) : normType W n = .node .type [n] := by
  cases n with
  | node o args => cases o <;> simp_all [normType, isUnionNorm]
  | ellipsis => rfl
  | lit v => rfl
  | mdata m => rfl

theorem idem_type_node {a : Norm α} (hu : isUnionNorm a = false) (hi : Idem W a) : Idem W (.node .type [a]) := by
  simp only [Idem, embed, embedType, normalize]
  rw [hi, normType_of_not_union W hu]

/-! ### generic and tuple nodes -/

theorem idem_obj_node (a : α) (L : List (Norm α)) (h : ∀ n, n ∈ L → Idem W n) : Idem W (.node (.obj a) L) := by
  cases L with
  | nil => simp [Idem, embed, embedList, mkObjHint, normalize]
  | cons x xs =>
    have := normalizeList_embedList W (x :: xs) h
    simp only [embedList] at this
    simp only [Idem, embed, embedList, mkObjHint, normalize, this]

theorem not_idem_ellipsis : ¬ Idem W (.ellipsis : Norm α) := by
  simp [Idem, embed, normalize, anyN]

theorem isVarTuple_false_of_idem (L : List (Norm α)) (h : ∀ n, n ∈ L → Idem W n) : isVarTuple L = false := by
  unfold isVarTuple
  split
  · rename_i x
    exact absurd (h .ellipsis (by simp)) (not_idem_ellipsis W)
  · rfl

theorem idem_tuple_node (L : List (Norm α)) (h : ∀ n, n ∈ L → Idem W n) : Idem W (.node .tuple L) := by
  simp only [Idem, embed, isVarTuple_false_of_idem W L h, mkTupleHint, Bool.false_eq_true, if_false, normalize,
    normalizeList_embedList W L h]

theorem idem_tuple_var (n : Norm α) (h : Idem W n) : Idem W (.node .tuple [n, .ellipsis]) := by
  simp only [Idem, embed, isVarTuple, embedList, mkTupleHint, if_true, normalize]
  rw [h]

theorem isUnionNorm_iff (n : Norm α) : isUnionNorm n = true ↔ ∃ args, n = .node .union args := by
  cases n with
  | node o args => cases o <;> simp [isUnionNorm]
  | ellipsis => simp [isUnionNorm]
  | lit v => simp [isUnionNorm]
  | mdata m => simp [isUnionNorm]

/-! ### the induction -/

mutual
theorem idem_normalize (hK : DistinctOrderKeys W) : ∀ (h : Hint α), TypingBuilt h →
    Idem W (normalize W h) ∧ ∀ a, a ∈ alts (normalize W h) → Idem W a ∧ NoNoneLit a
  | .none _, _ => by
    simpa [normalize] using single_result W (n := noneN) rfl (idem_noneN W) (noNoneLit_of_not_literal rfl)
  | .any, _ => by
    simpa [normalize] using single_result W (n := anyN) rfl (idem_anyN W) (noNoneLit_of_not_literal rfl)
  | .cls a, _ => by
    simpa [normalize] using single_result W (n := .node (.obj a) []) rfl (idem_obj_node W a [] (by simp))
      (noNoneLit_of_not_literal rfl)
  | .newType a, _ => by
    simpa [normalize] using single_result W (n := .node (.obj a) []) rfl (idem_obj_node W a [] (by simp))
      (noNoneLit_of_not_literal rfl)
  | .typeVar a _ _, _ => by
    simpa [normalize] using single_result W (n := .node (.obj a) []) rfl (idem_obj_node W a [] (by simp))
      (noNoneLit_of_not_literal rfl)
  | .bare _ a ps, hb => by
    have hl := idem_implicitList hK ps (by simpa [TypingBuilt] using hb)
    simpa [normalize] using single_result W (n := .node (.obj a) (implicitList W ps)) rfl
      (idem_obj_node W a _ hl) (noNoneLit_of_not_literal rfl)
  | .app _ a args, hb => by
    have hl := idem_normalizeList hK args (by simpa [TypingBuilt] using hb)
    simpa [normalize] using single_result W (n := .node (.obj a) (normalizeList W args)) rfl
      (idem_obj_node W a _ (fun n hn => (hl n hn).1)) (noNoneLit_of_not_literal rfl)
  | .tupleBare _, _ => by
    simpa [normalize] using single_result W (n := .node .tuple [anyN, .ellipsis]) rfl
      (idem_tuple_var W anyN (idem_anyN W)) (noNoneLit_of_not_literal rfl)
  | .tupleVar _ h, hb => by
    have ih := idem_normalize hK h (by simpa [TypingBuilt] using hb)
    simpa [normalize] using single_result W (n := .node .tuple [normalize W h, .ellipsis]) rfl
      (idem_tuple_var W _ ih.1) (noNoneLit_of_not_literal rfl)
  | .tupleFix _ hs, hb => by
    have hl := idem_normalizeList hK hs (by simpa [TypingBuilt] using hb)
    simpa [normalize] using single_result W (n := .node .tuple (normalizeList W hs)) rfl
      (idem_tuple_node W _ (fun n hn => (hl n hn).1)) (noNoneLit_of_not_literal rfl)
  | .typeBare _, _ => by
    simpa [normalize] using single_result W (n := .node .type [anyN]) rfl
      (idem_type_node W (a := anyN) rfl (idem_anyN W)) (noNoneLit_of_not_literal rfl)
  | .typeOf _ h, hb => by
    have ih := idem_normalize hK h (by simpa [TypingBuilt] using hb)
    simp only [normalize]
    by_cases hu : isUnionNorm (normalize W h) = true
    · obtain ⟨args, e⟩ := (isUnionNorm_iff _).mp hu
      have nf := normalize_union_nf W h args e
      rw [e] at ih ⊢
      simp only [normType]
      have hargs : ∀ a, a ∈ args → isUnionNorm a = false ∧ Idem W a := fun a ha =>
        ⟨alts_normalize_not_union W h a (by rw [e]; exact ha), (ih.2 a ha).1⟩
      have members : ∀ t, t ∈ alts (mkUnion W (args.map fun a => Norm.node .type [a])) → Idem W t ∧ NoNoneLit t := by
        intro t ht
        rw [alts_mkUnion, mem_stableSort, List.mem_map] at ht
        obtain ⟨a, ha, rfl⟩ := ht
        exact ⟨idem_type_node W (hargs a ha).1 (hargs a ha).2, noNoneLit_of_not_literal rfl⟩
      refine ⟨idem_of_alts W _ (finishUnion_normType_union W args nf.1 nf.2) ?_ (fun t ht => (members t ht).1), members⟩
      intro t ht
      rw [alts_mkUnion, mem_stableSort, List.mem_map] at ht
      obtain ⟨a, _, rfl⟩ := ht
      rfl
    · have hu' : isUnionNorm (normalize W h) = false := by simpa using hu
      rw [normType_of_not_union W hu']
      exact single_result W rfl (idem_type_node W hu' ih.1) (noNoneLit_of_not_literal rfl)
  | .union o ms, hb => by
    have ihl := idem_normalizeList hK ms (by simpa [TypingBuilt] using hb)
    simp only [normalize, normUnion_eq]
    refine idem_finishUnion W hK _ (unfold_normalizeList_not_union W ms) ?_ ?_
    · intro x hx
      exact .inl ⟨.union o ms, by simpa [normalize, normUnion_eq] using hx⟩
    · intro a ha
      obtain ⟨n, hn, han⟩ := (mem_unfoldUnion a _).mp ha
      exact (ihl n hn).2 a han
  | .optional h, hb => by
    have ih := idem_normalize hK h (by simpa [TypingBuilt] using hb)
    simp only [normalize, normUnion_eq]
    refine idem_finishUnion W hK _ (optional_flat_not_union W h) ?_ ?_
    · intro x hx
      exact .inl ⟨.optional h, by simpa [normalize, normUnion_eq] using hx⟩
    · intro a ha
      rw [unfoldUnion_cons, unfoldUnion_cons] at ha
      simp only [unfoldUnion, List.append_nil, List.mem_append] at ha
      rcases ha with ha | ha
      · exact ih.2 a ha
      · simp [noneN, alts] at ha
        rw [ha]
        exact ⟨idem_noneN W, noNoneLit_of_not_literal rfl⟩
  | .literal vs, hb => by
    have hb' : vs.Nodup ∧ vs ≠ [] := by simpa [TypingBuilt] using hb
    simp only [normalize, normLiteral]
    split
    · exact single_result W (n := noneN) rfl (idem_noneN W) (noNoneLit_of_not_literal rfl)
    · split
      · rename_i hne hmem
        have hnone : LitVal.none ∉ vs.erase .none := by rw [hb'.1.mem_erase_iff]; simp
        have members : ∀ a, a ∈ alts (mkUnion W [noneN, createNormLiteral W (vs.erase .none)]) →
            Idem W a ∧ NoNoneLit a := by
          intro a ha
          rw [alts_mkUnion, mem_stableSort] at ha
          simp only [List.mem_cons, List.not_mem_nil, or_false] at ha
          rcases ha with rfl | rfl
          · exact ⟨idem_noneN W, noNoneLit_of_not_literal rfl⟩
          · exact ⟨idem_createNormLiteral W _ hnone, noNoneLit_createNormLiteral W _ hnone⟩
        refine ⟨idem_of_alts W _ (finishUnion_literal_with_none W hK vs hb'.1 hmem hne) ?_
          (fun a ha => (members a ha).1), members⟩
        intro a ha
        rw [alts_mkUnion, mem_stableSort] at ha
        simp only [List.mem_cons, List.not_mem_nil, or_false] at ha
        rcases ha with rfl | rfl <;> rfl
      · rename_i hne hmem
        exact single_result W (n := mkLiteral W vs) rfl (idem_mkLiteral W vs hmem) (noNoneLit_mkLiteral W vs hmem)
  | .annotated h ms, hb => by
    have ih := idem_normalize hK h (by simpa [TypingBuilt] using hb)
    simp only [normalize]
    have hi := idem_normAnnotated W _ ih.1 ms
    obtain ⟨args, e⟩ := normAnnotated_isNode (normalize W h) (ms.map Norm.mdata)
    rw [e] at hi ⊢
    exact single_result W rfl hi (noNoneLit_of_not_literal rfl)
theorem idem_normalizeList (hK : DistinctOrderKeys W) : ∀ (hs : List (Hint α)), TypingBuiltList hs →
    ∀ n, n ∈ normalizeList W hs → Idem W n ∧ ∀ a, a ∈ alts n → Idem W a ∧ NoNoneLit a
  | [], _, n, hn => by simp [normalizeList] at hn
  | h :: hs, hb, n, hn => by
    have hb' : TypingBuilt h ∧ TypingBuiltList hs := by simpa [TypingBuiltList] using hb
    simp only [normalizeList, List.mem_cons] at hn
    rcases hn with rfl | hn
    · exact idem_normalize hK h hb'.1
    · exact idem_normalizeList hK hs hb'.2 n hn
theorem idem_implicitParam (hK : DistinctOrderKeys W) : ∀ (p : Hint α), TypingBuilt p → Idem W (implicitParam W p)
  | .typeVar _ true cs, hb => by
    have ihl := idem_normalizeList hK cs (by simpa [TypingBuilt] using hb)
    simp only [implicitParam, normUnion_eq]
    refine (idem_finishUnion W hK _ (unfold_normalizeList_not_union W cs) ?_ ?_).1
    · intro x hx
      exact .inl ⟨.union false cs, by simpa [normalize, normUnion_eq] using hx⟩
    · intro a ha
      obtain ⟨n, hn, han⟩ := (mem_unfoldUnion a _).mp ha
      exact (ihl n hn).2 a han
  | .typeVar _ false [], _ => by simpa [implicitParam] using idem_anyN W
  | .typeVar _ false (b :: rest), hb => by
    have hb' : TypingBuilt b ∧ TypingBuiltList rest := by simpa [TypingBuilt, TypingBuiltList] using hb
    simpa [implicitParam] using (idem_normalize hK b hb'.1).1
  | .none _, _ => by simpa [implicitParam] using idem_anyN W
  | .any, _ => by simpa [implicitParam] using idem_anyN W
  | .cls _, _ => by simpa [implicitParam] using idem_anyN W
  | .newType _, _ => by simpa [implicitParam] using idem_anyN W
  | .bare _ _ _, _ => by simpa [implicitParam] using idem_anyN W
  | .app _ _ _, _ => by simpa [implicitParam] using idem_anyN W
  | .tupleBare _, _ => by simpa [implicitParam] using idem_anyN W
  | .tupleVar _ _, _ => by simpa [implicitParam] using idem_anyN W
  | .tupleFix _ _, _ => by simpa [implicitParam] using idem_anyN W
  | .typeBare _, _ => by simpa [implicitParam] using idem_anyN W
  | .typeOf _ _, _ => by simpa [implicitParam] using idem_anyN W
  | .union _ _, _ => by simpa [implicitParam] using idem_anyN W
  | .optional _, _ => by simpa [implicitParam] using idem_anyN W
  | .literal _, _ => by simpa [implicitParam] using idem_anyN W
  | .annotated _ _, _ => by simpa [implicitParam] using idem_anyN W
theorem idem_implicitList (hK : DistinctOrderKeys W) : ∀ (ps : List (Hint α)), TypingBuiltList ps →
    ∀ n, n ∈ implicitList W ps → Idem W n
  | [], _, n, hn => by simp [implicitList] at hn
  | p :: ps, hb, n, hn => by
    have hb' : TypingBuilt p ∧ TypingBuiltList ps := by simpa [TypingBuiltList] using hb
    simp only [implicitList, List.mem_cons] at hn
    rcases hn with rfl | hn
    · exact idem_implicitParam hK p hb'.1
    · exact idem_implicitList hK ps hb'.2 n hn
end

end Adaptix.Types
