/-
  C20 helper lemmas, part 6: the allocation counter.  `label s p` numbers the fresh nodes of
  `p` with `s, s+1, …, s + freshCount p - 1`, each exactly once.
-/
import AdaptixModel.Morph.Prov

namespace Adaptix.Morph

mutual
  /-- number of allocations a value stands for -/
  def PVal.freshCount : PVal → Nat
    | .node p _ ks => (match p with | .fresh => 1 | _ => 0) + PVal.freshCountL ks
  def PVal.freshCountL : List PVal → Nat
    | [] => 0
    | x :: xs => PVal.freshCount x + PVal.freshCountL xs
end

mutual
  theorem label_spec : ∀ (s : Nat) (p : PVal),
      (label s p).2 = s + p.freshCount ∧ (label s p).1.ids = List.range' s p.freshCount ∧
      (label s p).1.strip = p ∧ (label s p).1.wellLabelled = true
    | s, .node .fresh sh ks => by
      obtain ⟨h1, h2, h3, h4⟩ := labelL_spec (s + 1) ks
      refine ⟨?_, ?_, ?_, ?_⟩
      · simp only [label, PVal.freshCount, h1]; omega
      · simp only [label, PVal.freshCount, AVal.ids, h2, List.singleton_append]
        rw [Nat.add_comm 1, List.range'_succ]
      · simp only [label, AVal.strip, h3]
      · simp [label, AVal.wellLabelled, h4]
    | s, .node .arg sh ks => by
      obtain ⟨h1, h2, h3, h4⟩ := labelL_spec s ks
      simp [label, PVal.freshCount, AVal.ids, AVal.strip, AVal.wellLabelled, h1, h2, h3, h4]
    | s, .node .const sh ks => by
      obtain ⟨h1, h2, h3, h4⟩ := labelL_spec s ks
      simp [label, PVal.freshCount, AVal.ids, AVal.strip, AVal.wellLabelled, h1, h2, h3, h4]
  theorem labelL_spec : ∀ (s : Nat) (ps : List PVal),
      (labelL s ps).2 = s + PVal.freshCountL ps ∧
      AVal.idsL (labelL s ps).1 = List.range' s (PVal.freshCountL ps) ∧
      AVal.stripL (labelL s ps).1 = ps ∧ AVal.wellLabelledL (labelL s ps).1 = true
    | s, [] => by simp [labelL, PVal.freshCountL, AVal.idsL, AVal.stripL, AVal.wellLabelledL]
    | s, x :: xs => by
      obtain ⟨h1, h2, h3, h4⟩ := label_spec s x
      obtain ⟨g1, g2, g3, g4⟩ := labelL_spec (label s x).2 xs
      rw [h1] at g1 g2 g3 g4
      refine ⟨?_, ?_, ?_, ?_⟩
      · simp only [labelL, PVal.freshCountL, h1, g1]; omega
      · simp only [labelL, PVal.freshCountL, AVal.idsL, h2, h1, g2, List.range'_append_1]
      · simp only [labelL, AVal.stripL, h3, h1, g3]
      · simp [labelL, AVal.wellLabelledL, h4, h1, g4]
end

end Adaptix.Morph
