/-
  Helper lemmas for C10 about `create_loc_stack_checker` and `LocStackPattern`
  (AdaptixModel/Pred/Pattern.lean) against the specification (AdaptixModel/Pred/Spec.lean).
-/
import AdaptixModel.Pred.Pattern
import AdaptixModel.Pred.Spec
import AdaptixProofs.Lemmas.PredChecker

namespace Adaptix.Pred

theorem bind_eq_ok {ε α β : Type} {x : Except ε α} {f : α → Except ε β} {b : β} :
    (x >>= f) = .ok b ↔ ∃ a, x = .ok a ∧ f a = .ok b := by
  cases x <;> simp [bind, Except.bind]

/-- the checker cannot raise and decides `f` on every non-empty stack -/
def Denotes (W : World) (c : Checker) (f : LocStack → Bool) : Prop :=
  c.wf = true ∧ ∀ st : LocStack, st ≠ [] → checkB W c st = f st

theorem Denotes.congr {W : World} {c : Checker} {f g : LocStack → Bool} (h : Denotes W c f)
    (hfg : ∀ st : LocStack, st ≠ [] → f st = g st) : Denotes W c g :=
  ⟨h.1, fun st hne => (h.2 st hne).trans (hfg st hne)⟩

/-! ### last-location checkers -/

theorem lastLocCheckB_true (expected : LocClass) (f : Loc → Bool) (st : LocStack)
    (h : ∀ l : Loc, l.isCastable expected = true) :
    lastLocCheckB expected f st = match st.getLast? with | some l => f l | none => false := by
  unfold lastLocCheckB
  cases st.getLast? with
  | none => rfl
  | some l => simp [h l]

theorem denotes_exactFieldName (W : World) (s : String) :
    Denotes W (.exactFieldName s) (fun st => match st.getLast? with
      | some loc => loc.cls.isField && s == loc.fieldId | none => false) := by
  refine ⟨rfl, fun st _ => ?_⟩
  simp only [checkB, lastLocCheckB]
  cases st.getLast? with
  | none => rfl
  | some l => simp [isCastable_fieldLoc]

theorem denotes_reFieldName (W : World) (k : String) :
    Denotes W (.reFieldName k) (fun st => match st.getLast? with
      | some loc => loc.cls.isField && W.reFullmatch k loc.fieldId | none => false) := by
  refine ⟨rfl, fun st _ => ?_⟩
  simp only [checkB, lastLocCheckB]
  cases st.getLast? with
  | none => rfl
  | some l => simp [isCastable_fieldLoc']

theorem denotes_genericParam (W : World) (pos : Int) : Denotes W (.genericParam pos) (isGenericParam pos) := by
  refine ⟨rfl, fun st _ => ?_⟩
  simp only [checkB, lastLocCheckB, isGenericParam]
  cases st.getLast? with
  | none => rfl
  | some l => simp [isCastable_genericParamLoc]

/-- a string predicate -/
theorem denotes_str (W : World) (s : String) (c : Checker)
    (h : createLocStackChecker W (.str s) = .ok c) : Denotes W c (strMatches W s) := by
  simp only [createLocStackChecker, createNonTypeHint] at h
  by_cases hi : W.isIdentifier s
  · simp [hi, bind, Except.bind, pure, Except.pure] at h
    subst h
    refine (denotes_exactFieldName W s).congr fun st _ => ?_
    simp only [strMatches, fieldIdMatches, hi]
    cases st.getLast? <;> simp
  · by_cases hc : W.reCompiles s
    · simp [hi, hc, bind, Except.bind, pure, Except.pure] at h
      subst h
      refine (denotes_reFieldName W s).congr fun st _ => ?_
      simp only [strMatches, fieldIdMatches, hi]
      cases st.getLast? <;> simp
    · simp [hi, hc, bind, Except.bind] at h

/-- a compiled pattern -/
theorem denotes_re (W : World) (k : String) (c : Checker)
    (h : createLocStackChecker W (.re k) = .ok c) : Denotes W c (specMatches W (.re k)) := by
  simp [createLocStackChecker, createNonTypeHint, bind, Except.bind, pure, Except.pure] at h
  subst h
  refine (denotes_reFieldName W k).congr fun st _ => ?_
  simp only [specMatches]
  cases st.getLast? <;> simp

/-! ### classes and type hints -/

theorem checkB_exactOrigin (W : World) (o : Obj) (st : LocStack) :
    checkB W (.exactOrigin o) st = match st.getLast? with | some l => checkExactOrigin W o l | none => false := by
  simp only [checkB]; exact lastLocCheckB_true _ _ _ isCastable_typeHintLoc'

theorem checkB_originSubclass (W : World) (o : Obj) (st : LocStack) :
    checkB W (.originSubclass o) st = match st.getLast? with | some l => checkOriginSubclass W o l | none => false := by
  simp only [checkB]; exact lastLocCheckB_true _ _ _ isCastable_typeHintLoc''

theorem checkB_exactType (W : World) (n : Nat) (st : LocStack) :
    checkB W (.exactType n) st = match st.getLast? with | some l => checkExactType W n l | none => false := by
  simp only [checkB]; exact lastLocCheckB_true _ _ _ isCastable_typeHintLoc

theorem denotes_of_kind_exactly (W : World) (t o : Obj) (h : typePredKind W t = .exactly o) :
    Denotes W (.exactOrigin o) (specMatches W (.ty t)) := by
  refine ⟨rfl, fun st _ => ?_⟩
  rw [checkB_exactOrigin]
  simp only [specMatches]
  cases st.getLast? with
  | none => rfl
  | some l =>
    simp only [checkExactOrigin, typeMatches, h]
    cases W.norm l.type <;> rfl

theorem denotes_of_kind_subclasses (W : World) (t o : Obj) (h : typePredKind W t = .subclasses o) :
    Denotes W (.originSubclass o) (specMatches W (.ty t)) := by
  refine ⟨rfl, fun st _ => ?_⟩
  rw [checkB_originSubclass]
  simp only [specMatches]
  cases st.getLast? with
  | none => rfl
  | some l =>
    simp only [checkOriginSubclass, typeMatches, h]
    cases W.norm l.type <;> rfl

theorem denotes_of_kind_sameType (W : World) (t : Obj) (n : Nat) (h : typePredKind W t = .sameType n) :
    Denotes W (.exactType n) (specMatches W (.ty t)) := by
  refine ⟨rfl, fun st _ => ?_⟩
  rw [checkB_exactType]
  simp only [specMatches]
  cases st.getLast? with
  | none => rfl
  | some l =>
    simp only [checkExactType, typeMatches, h]
    cases W.norm l.type <;> rfl

/-- the checker `create_loc_stack_checker` builds for a class / type hint is the one the documented reading
    of the predicate (`typePredKind`) calls for; it raises exactly on the `invalid` ones -/
def kindChecker : TypePredKind → Except PyExc Checker
  | .exactly o => .ok (.exactOrigin o)
  | .subclasses o => .ok (.originSubclass o)
  | .sameType n => .ok (.exactType n)
  | .invalid => .error .valueError

theorem createFromTypeHint_kind (W : World) (t : Obj) :
    createFromTypeHint W t = kindChecker (typePredKind W t) := by
  unfold createFromTypeHint typePredKind
  cases hn : W.norm t with
  | notSubscribed => rfl
  | valueError => rfl
  | ok n =>
    simp only [World.isBareGeneric, createByOrigin]
    by_cases h1 : W.normIsTV n = true <;> by_cases h2 : W.isGeneric t = true <;>
      by_cases h3 : W.isParametrized t = true <;> by_cases h4 : W.isGeneric (W.normOrigin n) = true <;>
      by_cases h5 : W.isProtocol (W.normOrigin n) = true <;> by_cases h6 : W.isAbstract (W.normOrigin n) = true <;>
      simp [h1, h2, h3, h4, h5, h6, kindChecker]

theorem denotes_ty (W : World) (t : Obj) (c : Checker)
    (h : createLocStackChecker W (.ty t) = .ok c) : Denotes W c (specMatches W (.ty t)) := by
  simp only [createLocStackChecker, createNonTypeHint, bind, Except.bind] at h
  rw [createFromTypeHint_kind] at h
  cases hk : typePredKind W t with
  | exactly o => rw [hk] at h; cases h; exact denotes_of_kind_exactly W t o hk
  | subclasses o => rw [hk] at h; cases h; exact denotes_of_kind_subclasses W t o hk
  | sameType n => rw [hk] at h; cases h; exact denotes_of_kind_sameType W t n hk
  | invalid => rw [hk] at h; simp [kindChecker] at h

end Adaptix.Pred
