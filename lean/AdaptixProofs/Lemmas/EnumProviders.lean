/-
  C18 — helper lemmas about the provider closures: what a successfully created loader /
  dumper is, and the shape of the dispatch at the head of the flag list loader.
-/
import AdaptixProofs.Lemmas.EnumSpec
import AdaptixProofs.Lemmas.EnumClass

namespace Adaptix.Enum.C18

open Adaptix.Enum

theorem reprByValue_iff {c : EnumClass} (wf : c.WF) (d : PyVal) (m : Member) :
    (c.lookup d).orElse (fun _ => c.missingHook d) = some m ↔ ReprByValue c d m := by
  unfold ReprByValue
  cases hl : c.lookup d with
  | none =>
    have hn := EnumClass.lookup_none_iff.1 hl
    simp only [Option.orElse_none]
    constructor
    · intro h; exact ⟨EnumClass.missingHook_mem h, Or.inr ⟨hn, h⟩⟩
    · rintro ⟨hm, h | h⟩
      · rw [hn m hm] at h; cases h
      · exact h.2
  | some m' =>
    obtain ⟨hm', hpe'⟩ := (EnumClass.lookup_some_iff wf).1 hl
    simp only [Option.orElse_some, Option.some.injEq]
    constructor
    · rintro rfl; exact ⟨hm', Or.inl hpe'⟩
    · rintro ⟨hm, h | h⟩
      · exact wf.unique hm' hm (PyVal.pyEq_trans' hpe' h)
      · rw [h.1 m' hm'] at hpe'; cases hpe'

theorem enumNameLoader_ok {c : EnumClass} {cfg : NameCfg} {ld : PyVal → Outcome Member}
    (h : enumNameLoader c cfg = .ok ld) :
    ∃ mapping, genForLoading Member.name cfg c.membersValues = some mapping ∧
      ld = fun data =>
        if data.hashable then
          match data.strKey with
          | some s =>
            match dictGet (· == ·) mapping s with
            | some m => .ok m
            | none => .loadErr (.badVariant (nameVariants mapping))
          | none => .loadErr (.badVariant (nameVariants mapping))
        else .loadErr (.badVariant (nameVariants mapping)) := by
  unfold enumNameLoader at h
  split at h
  · cases h
  · rename_i mapping hm
    injection h with h
    exact ⟨mapping, hm, h.symm⟩

theorem enumNameDumper_ok {c : EnumClass} {cfg : NameCfg} {dp : Member → Option PyVal}
    (h : enumNameDumper c cfg = .ok dp) :
    ∃ mapping, genForDumping Member.name cfg c.membersValues = some mapping ∧
      dp = fun data => (dictGet (· == ·) mapping data).map fun s => .atom (.str s) := by
  unfold enumNameDumper at h
  split at h
  · cases h
  · rename_i mapping hm
    injection h with h
    exact ⟨mapping, hm, h.symm⟩

theorem call_eq_some_iff (c : FlagClass) (v : Nat) : c.call v = some v ↔ ValidValue c v := by
  unfold FlagClass.call ValidValue
  by_cases hs : c.strict = true <;> by_cases h0 : c.cover v = 0 <;> by_cases hv : c.cover v = v <;>
    simp [hs, h0, hv]

theorem call_eq_none_iff (c : FlagClass) (v : Nat) : c.call v = none ↔ ¬ ValidValue c v := by
  rw [← call_eq_some_iff]
  unfold FlagClass.call
  dsimp only
  split <;> simp

theorem flagExactLoader_ok {c : FlagClass} {ld : PyVal → Outcome Nat}
    (h : flagExactLoader c = .ok ld) :
    allBits c.mask = c.mask ∧
      ld = fun data =>
        match data with
        | .atom (.int i) =>
          if i < 0 || i > (c.mask : Int) then .loadErr (.outOfRange 0 c.mask)
          else
            match c.call i.toNat with
            | some v => .ok v
            | none => .loadErr (.msg "Bad flag value")
        | _ => .loadErr .typeLoad := by
  unfold flagExactLoader at h
  dsimp only at h
  split at h
  · cases h
  · split at h
    · cases h
    · rename_i hg
      injection h with h
      exact ⟨by simpa using hg, h.symm⟩

theorem flagListLoader_ok {c : FlagClass} {cfg : NameCfg} {o : ListOpts} {ld : PyVal → Outcome Nat}
    (h : flagListLoader c cfg o = .ok ld) :
    ∃ mapping, genForLoading FlagCase.name cfg (c.getCases o) = some mapping ∧
      ld = fun data =>
        match data with
        | .list xs => listLoadItems o mapping xs
        | .tuple xs => listLoadItems o mapping xs
        | .mapping ks =>
          if o.strictCoercion then .loadErr .excludedType
          else listLoadItems o mapping ks
        | .atom (.str s) =>
          if o.allowSingleValue then listLoadItems o mapping [.str s]
          else .loadErr .typeLoad
        | _ => .loadErr .typeLoad := by
  unfold flagListLoader at h
  dsimp only at h
  split at h
  · cases h
  · rename_i mapping hm
    split at h
    · cases h
    · injection h with h
      exact ⟨mapping, hm, h.symm⟩

/-- the cases in the order the dumper visits them -/
def dumpCases (c : FlagClass) (o : ListOpts) : List FlagCase :=
  if o.allowCompound && c.getCases o != c.nonCompound then (c.getCases o).reverse else c.getCases o

theorem mem_dumpCases {c : FlagClass} {o : ListOpts} {s : FlagCase} :
    s ∈ dumpCases c o ↔ s ∈ c.getCases o := by
  unfold dumpCases; split <;> simp

theorem flagListDumper_ok {c : FlagClass} {cfg : NameCfg} {o : ListOpts} {dp : Nat → List String}
    (h : flagListDumper c cfg o = .ok dp) :
    ∃ mapping, genForDumping FlagCase.name cfg (dumpCases c o) = some mapping ∧
      ∀ value, ∃ chosen : List FlagCase,
        dp value = chosen.map (fun c => (dictGet (· == ·) mapping c).getD "") ∧
        chosen.Nodup ∧ (∀ s ∈ chosen, s ∈ c.getCases o) ∧
        orAll (chosen.map (·.bits)) = finalSum value (dumpCases c o) 0 := by
  unfold flagListDumper at h
  dsimp only at h
  split at h
  · cases h
  · rename_i mapping hm
    split at h
    · cases h
    · injection h with h
      refine ⟨mapping, hm, ?_⟩
      intro value
      have hsum : orAll ((chosenGo value (dumpCases c o) 0).map (·.bits)) =
          finalSum value (dumpCases c o) 0 := by simp [finalSum]
      have hmem : ∀ s ∈ chosenGo value (dumpCases c o) 0, s ∈ c.getCases o :=
        fun s hs => mem_dumpCases.1 (chosenGo_mem hs).1
      subst h
      simp only [listDumpLoop_eq, List.nil_append]
      by_cases hrev : (o.allowCompound && c.getCases o != c.nonCompound) = true
      · refine ⟨(chosenGo value (dumpCases c o) 0).reverse, ?_, ?_, ?_, ?_⟩
        · simp [hrev, dumpCases, List.map_reverse]
        · rw [List.Nodup, List.pairwise_reverse]
          exact (chosenGo_nodup _ _ _).imp (fun h => Ne.symm h)
        · intro s hs; exact hmem s (List.mem_reverse.1 hs)
        · rw [List.map_reverse, orAll_reverse]; exact hsum
      · refine ⟨chosenGo value (dumpCases c o) 0, ?_, chosenGo_nodup _ _ _, hmem, hsum⟩
        simp [hrev, dumpCases]

theorem unionOf_append (a b : List FlagCase) : unionOf (a ++ b) = unionOf a ||| unionOf b := by
  simp [unionOf, orAll_append]

/-- the dispatch on the type of the datum at the head of `flag_loader` -/
def dispatch (o : ListOpts) (ml : List (String × FlagCase)) (d : PyVal) : Outcome Nat :=
  match d with
  | .list xs => listLoadItems o ml xs
  | .tuple xs => listLoadItems o ml xs
  | .mapping ks => if o.strictCoercion then .loadErr .excludedType else listLoadItems o ml ks
  | .atom (.str s) => if o.allowSingleValue then listLoadItems o ml [.str s] else .loadErr .typeLoad
  | _ => .loadErr .typeLoad

theorem dispatch_of_container {o : ListOpts} {ml : List (String × FlagCase)} {d : PyVal}
    {items : List Atom} (h : Container o d items) : dispatch o ml d = listLoadItems o ml items := by
  unfold Container at h
  rcases h with rfl | rfl | ⟨rfl, hs⟩ | ⟨s, rfl, hs, rfl⟩ <;> simp [dispatch, *]

theorem dispatch_cases {o : ListOpts} {ml : List (String × FlagCase)} (d : PyVal) :
    (∃ items, Container o d items) ∨
      ((∀ items, ¬ Container o d items) ∧
        (dispatch o ml d = .loadErr .typeLoad ∨ dispatch o ml d = .loadErr .excludedType)) := by
  cases d with
  | list xs => exact Or.inl ⟨xs, Or.inl rfl⟩
  | tuple xs => exact Or.inl ⟨xs, Or.inr (Or.inl rfl)⟩
  | mapping ks =>
    by_cases hs : o.strictCoercion = true
    · refine Or.inr ⟨fun items hc => ?_, Or.inr (by simp [dispatch, hs])⟩
      unfold Container at hc; simp [hs] at hc
    · exact Or.inl ⟨ks, Or.inr (Or.inr (Or.inl ⟨rfl, by simpa using hs⟩))⟩
  | self n a =>
    refine Or.inr ⟨fun items hc => ?_, Or.inl rfl⟩
    unfold Container at hc; simp at hc
  | atom a =>
    by_cases hstr : ∃ s, a = .str s
    · obtain ⟨s, rfl⟩ := hstr
      by_cases hs : o.allowSingleValue = true
      · exact Or.inl ⟨[.str s], Or.inr (Or.inr (Or.inr ⟨s, rfl, hs, rfl⟩))⟩
      · refine Or.inr ⟨fun items hc => ?_, Or.inl (by simp [dispatch, hs])⟩
        unfold Container at hc; simp [hs] at hc
    · refine Or.inr ⟨fun items hc => ?_, Or.inl ?_⟩
      · unfold Container at hc
        simp at hc
        obtain ⟨s, hs, _⟩ := hc
        exact hstr ⟨s, hs⟩
      · cases a <;> first | rfl | exact absurd ⟨_, rfl⟩ hstr

theorem flagListLoader_dispatch {c : FlagClass} {cfg : NameCfg} {o : ListOpts} {ld : PyVal → Outcome Nat}
    (h : flagListLoader c cfg o = .ok ld) :
    ∃ ml, genForLoading FlagCase.name cfg (c.getCases o) = some ml ∧ ld = dispatch o ml := by
  obtain ⟨ml, hml, rfl⟩ := flagListLoader_ok h
  exact ⟨ml, hml, rfl⟩

theorem mapped_isSome_of_no_style {cfg : NameCfg} (h : cfg.style = none) (n : String) :
    (cfg.mapped n).isSome = true := by
  unfold NameCfg.mapped
  cases cfg.findByMember n <;> cases cfg.findByName n <;> simp [h]


end Adaptix.Enum.C18
