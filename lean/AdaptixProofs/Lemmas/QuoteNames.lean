/-
  Helper lemmas for C19 (names): prefix comparability, pairwise check, namespace.
-/
import AdaptixModel.Gen.Names

namespace Adaptix.Gen

theorem isPrefixOf_append_self (p a : Str) : p.isPrefixOf (p ++ a) = true := by
  rw [List.isPrefixOf_iff_prefix]; exact List.prefix_append p a

theorem append_eq_append_comparable {p q a b : Str} (h : p ++ a = q ++ b) : comparable p q = true := by
  unfold comparable
  rcases List.append_eq_append_iff.mp h with ⟨c, hq, _⟩ | ⟨c, hp, _⟩
  · subst hq; simp [isPrefixOf_append_self]
  · subst hp; simp [isPrefixOf_append_self]

theorem comparable_comm (a b : Str) : comparable a b = comparable b a := by
  unfold comparable; exact Bool.or_comm _ _

theorem pairwiseB_spec {α : Type} (r : α → α → Bool) (hsym : ∀ a b, r a b = r b a) :
    ∀ l : List α, pairwiseB r l = true → ∀ x ∈ l, ∀ y ∈ l, x ≠ y → r x y = true := by
  intro l
  induction l with
  | nil => intro _ x hx; cases hx
  | cons a t ih =>
    intro h x hx y hy hne
    simp only [pairwiseB, Bool.and_eq_true, List.all_eq_true] at h
    rcases List.mem_cons.mp hx with rfl | hx' <;> rcases List.mem_cons.mp hy with rfl | hy'
    · exact absurd rfl hne
    · exact h.1 y hy'
    · rw [hsym]; exact h.1 x hx'
    · exact ih h.2 x hx' y hy' hne

theorem prefix_of_append_eq {p a n : Str} (h : p ++ a = n) : p.isPrefixOf n = true := by
  subst h; exact isPrefixOf_append_self p a

theorem lookupName_some_mem {m : List (Str × Nat)} {n : Str} {o : Nat}
    (h : lookupName m n = some o) : (n, o) ∈ m := by
  unfold lookupName at h
  cases hf : m.find? (fun e => e.1 == n) with
  | none => simp [hf] at h
  | some e =>
    simp [hf] at h
    have hm := List.mem_of_find?_eq_some hf
    have hp := List.find?_some hf
    simp at hp
    cases e with
    | mk e1 e2 => simp at hp h; subst hp; subst h; exact hm

theorem lookupName_none_not_mem {m : List (Str × Nat)} {n : Str}
    (h : lookupName m n = none) : ∀ o, (n, o) ∉ m := by
  intro o hm
  unfold lookupName at h
  simp at h
  exact h n o hm rfl

/-- what `try_add_constant(name, obj) == True` guarantees about `name` -/
def FreshFor (builtins : List Str) (ns ns' : Namespace) (name : Str) (obj : Nat) : Prop :=
  name ∉ ns.occupied ∧ name ∉ ns.variables ∧ (∀ o, (name, o) ∉ ns.outer)
  ∧ (ns.allowBuiltins = false → name ∉ builtins)
  ∧ (lookupName ns.constants name = none ∨ lookupName ns.constants name = some obj)
  ∧ lookupName ns'.constants name = some obj

theorem tryAddConstant_fresh (builtins : List Str) (ns ns1 : Namespace) (n : Str) (obj : Nat)
    (hadd : ns.tryAddConstant builtins n obj = (true, ns1)) : FreshFor builtins ns ns1 n obj := by
  unfold Namespace.tryAddConstant at hadd
  split at hadd
  · simp at hadd
  · rename_i hcond
    simp only [Bool.or_eq_true, not_or, Bool.and_eq_true, List.contains_eq_mem, decide_eq_true_eq,
      Option.isSome_iff_ne_none, ne_eq, Decidable.not_not, Bool.not_eq_true', not_and] at hcond
    obtain ⟨⟨⟨hocc, hvar⟩, hout⟩, hbi⟩ := hcond
    have houter := lookupName_none_not_mem hout
    have hbi' : ns.allowBuiltins = false → n ∉ builtins := by
      intro hab hmem
      have := hbi hmem
      simp [hab] at this
    cases hl : lookupName ns.constants n with
    | none =>
      rw [hl] at hadd
      simp at hadd
      refine ⟨hocc, hvar, houter, hbi', Or.inl hl, ?_⟩
      rw [← hadd]
      unfold lookupName at hl ⊢
      simp only [Option.map_eq_none_iff] at hl
      simp [List.find?_append, hl]
    | some o =>
      rw [hl] at hadd
      simp at hadd
      obtain ⟨ho, hns⟩ := hadd
      subst ho
      subst hns
      exact ⟨hocc, hvar, houter, hbi', Or.inr hl, hl⟩

theorem mangleLoop_fresh (builtins : List Str) (ns : Namespace) (base : Str) (obj : Nat) :
    ∀ fuel i name ns', mangleLoop builtins ns base obj fuel i = some (name, ns') →
      FreshFor builtins ns ns' name obj := by
  intro fuel
  induction fuel with
  | zero => intro i name ns' h; simp [mangleLoop] at h
  | succ f ih =>
    intro i name ns' h
    unfold mangleLoop at h
    simp only at h
    split at h
    · rename_i ns1 hadd
      simp at h
      obtain ⟨hn, hns⟩ := h
      subst hn; subst hns
      exact tryAddConstant_fresh builtins ns ns1 _ obj hadd
    · exact ih (i + 1) name ns' h

/-- a name handed out by the mangling loop is `base_<decimal number>` -/
theorem mangleLoop_name (builtins : List Str) (ns : Namespace) (base : Str) (obj : Nat) :
    ∀ fuel i name ns', mangleLoop builtins ns base obj fuel i = some (name, ns') →
      ∃ j, name = base ++ 95 :: decimal j := by
  intro fuel
  induction fuel with
  | zero => intro i name ns' h; simp [mangleLoop] at h
  | succ f ih =>
    intro i name ns' h
    unfold mangleLoop at h
    simp only at h
    split at h
    · simp at h
      exact ⟨i, h.1.symm⟩
    · exact ih (i + 1) name ns' h

theorem decimal_digits (n : Nat) : ∀ c ∈ decimal n, (48 ≤ c && c ≤ 57) = true := by
  intro c hc
  unfold decimal at hc
  obtain ⟨ch, hch, rfl⟩ := List.mem_map.mp hc
  have hd := Nat.isDigit_of_mem_toDigits (by decide) (by decide) hch
  simp [Char.isDigit] at hd
  have h1 := UInt32.le_iff_toNat_le.mp hd.1
  have h2 := UInt32.le_iff_toNat_le.mp hd.2
  simp only [Bool.and_eq_true, decide_eq_true_eq]
  exact ⟨h1, h2⟩

/-! ### what `try_add_constant` / `register_mangled` may change, and why the loop ends -/

/-- the only change `try_add_constant(name, obj) == True` may make: `(name, obj)` appended to the constants,
    and only if `name` was unbound -/
def Frame (ns ns' : Namespace) (name : Str) (obj : Nat) : Prop :=
  ns'.outer = ns.outer ∧ ns'.occupied = ns.occupied ∧ ns'.variables = ns.variables
  ∧ ns'.allowBuiltins = ns.allowBuiltins
  ∧ (ns'.constants = ns.constants
     ∨ (lookupName ns.constants name = none ∧ ns'.constants = ns.constants ++ [(name, obj)]))

theorem tryAddConstant_frame (builtins : List Str) (ns ns1 : Namespace) (n : Str) (obj : Nat)
    (hadd : ns.tryAddConstant builtins n obj = (true, ns1)) : Frame ns ns1 n obj := by
  unfold Namespace.tryAddConstant at hadd
  split at hadd
  · simp at hadd
  · cases hl : lookupName ns.constants n with
    | none =>
      rw [hl] at hadd
      simp at hadd
      subst hadd
      exact ⟨rfl, rfl, rfl, rfl, Or.inr ⟨hl, rfl⟩⟩
    | some o =>
      rw [hl] at hadd
      simp at hadd
      obtain ⟨_, hns⟩ := hadd
      subst hns
      exact ⟨rfl, rfl, rfl, rfl, Or.inl rfl⟩

theorem mangleLoop_frame (builtins : List Str) (ns : Namespace) (base : Str) (obj : Nat) :
    ∀ fuel i name ns', mangleLoop builtins ns base obj fuel i = some (name, ns') → Frame ns ns' name obj := by
  intro fuel
  induction fuel with
  | zero => intro i name ns' h; simp [mangleLoop] at h
  | succ f ih =>
    intro i name ns' h
    unfold mangleLoop at h
    simp only at h
    split at h
    · rename_i ns1 hadd
      simp at h
      obtain ⟨hn, hns⟩ := h
      subst hn; subst hns
      exact tryAddConstant_frame builtins ns ns1 _ obj hadd
    · exact ih (i + 1) name ns' h

/-- a frame keeps every existing binding -/
theorem Frame.keeps {ns ns' : Namespace} {name : Str} {obj : Nat} (h : Frame ns ns' name obj)
    (n : Str) (o : Nat) (hb : lookupName ns.constants n = some o) : lookupName ns'.constants n = some o := by
  obtain ⟨_, _, _, _, hc | ⟨_, hc⟩⟩ := h
  · rw [hc]; exact hb
  · rw [hc]
    unfold lookupName at hb ⊢
    rw [List.find?_append]
    cases hf : ns.constants.find? (fun e => e.1 == n) with
    | none => simp [hf] at hb
    | some e => simpa [hf] using hb

/-- a refused name is one of the finitely many blockers -/
theorem tryAddConstant_refused (builtins : List Str) (ns : Namespace) (n : Str) (obj : Nat)
    (h : (ns.tryAddConstant builtins n obj).1 = false) : n ∈ ns.blockers builtins := by
  unfold Namespace.tryAddConstant at h
  unfold Namespace.blockers
  split at h
  · rename_i hcond
    simp only [Bool.or_eq_true, Bool.and_eq_true, List.contains_eq_mem, decide_eq_true_eq] at hcond
    rcases hcond with ((hocc | hvar) | hout) | hbi
    · simp [hocc]
    · simp [hvar]
    · obtain ⟨o, ho⟩ := Option.isSome_iff_exists.mp hout
      have := lookupName_some_mem ho
      have hm : n ∈ ns.outer.map (·.1) := List.mem_map.mpr ⟨(n, o), this, rfl⟩
      simp only [List.mem_append]
      exact Or.inl (Or.inl (Or.inr hm))
    · simp [hbi.1]
  · cases hl : lookupName ns.constants n with
    | none => rw [hl] at h; simp at h
    | some o =>
      have := lookupName_some_mem hl
      have hm : n ∈ ns.constants.map (·.1) := List.mem_map.mpr ⟨(n, o), this, rfl⟩
      simp only [List.mem_append]
      exact Or.inr hm

theorem mangleLoop_none_blocked (builtins : List Str) (ns : Namespace) (base : Str) (obj : Nat) :
    ∀ fuel i, mangleLoop builtins ns base obj fuel i = none →
      ∀ j, i ≤ j → j < i + fuel → base ++ 95 :: decimal j ∈ ns.blockers builtins := by
  intro fuel
  induction fuel with
  | zero => intro i _ j h1 h2; omega
  | succ f ih =>
    intro i h j h1 h2
    unfold mangleLoop at h
    simp only at h
    split at h
    · simp at h
    · rename_i ns1 hadd
      by_cases hji : j = i
      · subst hji
        exact tryAddConstant_refused builtins ns _ obj (by rw [hadd])
      · exact ih (i + 1) h j (by omega) (by omega)

/-- more fuel never changes a result already found -/
theorem mangleLoop_mono (builtins : List Str) (ns : Namespace) (base : Str) (obj : Nat) :
    ∀ fuel i r, mangleLoop builtins ns base obj fuel i = some r →
      ∀ k, mangleLoop builtins ns base obj (fuel + k) i = some r := by
  intro fuel
  induction fuel with
  | zero => intro i r h; simp [mangleLoop] at h
  | succ f ih =>
    intro i r h k
    have hk : f + 1 + k = (f + k) + 1 := by omega
    rw [hk]
    unfold mangleLoop at h ⊢
    simp only at h ⊢
    split
    · rename_i ns1 hadd
      rw [hadd] at h
      exact h
    · rename_i ns1 hadd
      rw [hadd] at h
      exact ih (i + 1) r h k

theorem decimal_injective {a b : Nat} (h : decimal a = decimal b) : a = b := by
  unfold decimal at h
  have hinj : ∀ x y : Char, Char.toNat x = Char.toNat y → x = y := by
    intro x y hxy
    exact Char.ext (UInt32.toNat_inj.mp hxy)
  have h2 : Nat.toDigits 10 a = Nat.toDigits 10 b := (List.map_inj_right hinj).mp h
  have ha := @Nat.ofDigitChars_ten_toDigits a
  have hb := @Nat.ofDigitChars_ten_toDigits b
  rw [h2] at ha
  omega

/-- pigeonhole: a run of `n` pairwise distinct names inside a list needs `n ≤ length` -/
theorem distinct_run_le_length (g : Nat → Str) (hg : ∀ a b, g a = g b → a = b) :
    ∀ n (L : List Str) i, (∀ j, i ≤ j → j < i + n → g j ∈ L) → n ≤ L.length := by
  intro n
  induction n with
  | zero => intro L i _; omega
  | succ m ih =>
    intro L i h
    have hi : g i ∈ L := h i (Nat.le_refl _) (by omega)
    have hpos : 0 < L.length := List.length_pos_of_mem hi
    have hlen : (L.erase (g i)).length = L.length - 1 := List.length_erase_of_mem hi
    have := ih (L.erase (g i)) (i + 1) (by
      intro j h1 h2
      have hj : g j ∈ L := h j (by omega) (by omega)
      have hne : g j ≠ g i := by
        intro heq
        have := hg j i heq
        omega
      exact (List.mem_erase_of_ne hne).mpr hj)
    omega

theorem identShaped_ne_nil {idCont : Nat → Bool} {s : Str} (h : IdentShaped idCont s) : s ≠ [] := by
  intro hs; subst hs; exact h

theorem identShaped_append {idCont : Nat → Bool} {s t : Str} (h : IdentShaped idCont s)
    (ht : ∀ c ∈ t, idCont c = true) : IdentShaped idCont (s ++ t) := by
  cases s with
  | nil => exact absurd h (by simp [IdentShaped])
  | cons a r =>
    refine ⟨h.1, ?_⟩
    intro c hc
    rcases List.mem_append.mp hc with hc | hc
    · exact h.2 c hc
    · exact ht c hc

end Adaptix.Gen
