/-
  Helper lemmas for C19 (names): prefix comparability, pairwise check, namespace.
-/
import AdaptixModel.Gen.Names

namespace Adaptix.Gen

theorem isPrefixOf_append_self (p a : Str) : p.isPrefixOf (p ++ a) = true := by
  rw [List.isPrefixOf_iff_prefix]; exact List.prefix_append p a

theorem append_eq_append_comparable {p q a b : Str} (h : p ++ a = q ++ b) : comparable p q = true := by
  unfold comparable
  rcases List.append_eq_append_iff.mp h with ⟨c, hq, _⟩ | ⟨c, hp, _⟩
  · subst hq; simp [isPrefixOf_append_self]
  · subst hp; simp [isPrefixOf_append_self]

theorem comparable_comm (a b : Str) : comparable a b = comparable b a := by
  unfold comparable; exact Bool.or_comm _ _

theorem pairwiseB_spec {α : Type} (r : α → α → Bool) (hsym : ∀ a b, r a b = r b a) :
    ∀ l : List α, pairwiseB r l = true → ∀ x ∈ l, ∀ y ∈ l, x ≠ y → r x y = true := by
  intro l
  induction l with
  | nil => intro _ x hx; cases hx
  | cons a t ih =>
    intro h x hx y hy hne
    simp only [pairwiseB, Bool.and_eq_true, List.all_eq_true] at h
    rcases List.mem_cons.mp hx with rfl | hx' <;> rcases List.mem_cons.mp hy with rfl | hy'
    · exact absurd rfl hne
    · exact h.1 y hy'
    · rw [hsym]; exact h.1 x hx'
    · exact ih h.2 x hx' y hy' hne

theorem prefix_of_append_eq {p a n : Str} (h : p ++ a = n) : p.isPrefixOf n = true := by
  subst h; exact isPrefixOf_append_self p a

theorem lookupName_some_mem {m : List (Str × Nat)} {n : Str} {o : Nat}
    (h : lookupName m n = some o) : (n, o) ∈ m := by
  unfold lookupName at h
  cases hf : m.find? (fun e => e.1 == n) with
  | none => simp [hf] at h
  | some e =>
    simp [hf] at h
    have hm := List.mem_of_find?_eq_some hf
    have hp := List.find?_some hf
    simp at hp
    cases e with
    | mk e1 e2 => simp at hp h; subst hp; subst h; exact hm

theorem lookupName_none_not_mem {m : List (Str × Nat)} {n : Str}
    (h : lookupName m n = none) : ∀ o, (n, o) ∉ m := by
  intro o hm
  unfold lookupName at h
  simp at h
  exact h n o hm rfl

end Adaptix.Gen
