/-
  C06 helper lemmas, part 6: from the equal-fuel simulation to statements about
  runs with arbitrary (sufficient) fuel.
-/
import AdaptixProofs.Lemmas.MorphModesLeaf

namespace Adaptix.Morph
open Adaptix.Py

theorem modes_sim_load_any (W : World) (m : DebugTrail) (s : Bool) (n : Nat) (T : Ty) (d : Val) :
    AllSim m (load W ⟨m, s⟩ n T d) (load W ⟨.all, s⟩ n T d) := by
  by_cases hm : m = .all
  · subst hm; exact modes_sim_refl _ _
  · exact modes_sim_load W hm s n T d

/-- the simulation between a mode-`m` run and an ALL run that both terminated, whatever
    their fuels -/
theorem modes_sim_load_fuels (W : World) (m : DebugTrail) (s : Bool) (n N : Nat) (T : Ty) (d : Val)
    (hm : load W ⟨m, s⟩ n T d ≠ .diverge) (hA : load W ⟨.all, s⟩ N T d ≠ .diverge) :
    AllSim m (load W ⟨m, s⟩ n T d) (load W ⟨.all, s⟩ N T d) := by
  have h := modes_sim_load_any W m s (max n N) T d
  rwa [modes_load_mono_le (Nat.le_max_left n N) hm, modes_load_mono_le (Nat.le_max_right n N) hA] at h

/-- a terminated ALL run that is not an escape fixes the outcome of every terminated run -/
theorem modes_agree_core (W : World) (s : Bool) (m : DebugTrail) (n N : Nat) (T : Ty) (d : Val)
    (hA : load W ⟨.all, s⟩ N T d ≠ .diverge) (hE : (load W ⟨.all, s⟩ N T d).isEscape = false)
    (hm : load W ⟨m, s⟩ n T d ≠ .diverge) :
    (∃ v, load W ⟨.all, s⟩ N T d = .ok v ∧ load W ⟨m, s⟩ n T d = .ok v) ∨
    (∃ E e, load W ⟨.all, s⟩ N T d = .err E ∧ load W ⟨m, s⟩ n T d = .err e ∧ ErrCorr m e E) := by
  have h := modes_sim_load_fuels W m s n N T d hm hA
  cases hAo : load W ⟨.all, s⟩ N T d with
  | ok v =>
    rw [hAo] at h
    rcases h with h | h
    · exact Or.inl ⟨v, rfl, h⟩
    · exact absurd h hm
  | err E =>
    rw [hAo] at h
    rcases h with h | ⟨e, h, hc⟩
    · exact absurd h hm
    · exact Or.inr ⟨E, e, rfl, h, hc⟩
  | escape x => rw [hAo] at hE; simp [Outcome.isEscape] at hE
  | diverge => exact absurd hAo hA

theorem modes_corr_first {k : String × Option Val} {l : LErr} (h : Corr .first k l) :
    k = (l.cls, l.input) := by
  cases h with
  | same c t i dt ch => rfl

theorem modes_dsim_dump_fuels (W : World) (DW : DumpWorld) (m₁ m₂ : DebugTrail) (s : Bool) (n₁ n₂ : Nat)
    (T : Ty) (x : Val) (h₁ : dump W DW ⟨m₁, s⟩ n₁ T x ≠ .diverge) (h₂ : dump W DW ⟨m₂, s⟩ n₂ T x ≠ .diverge) :
    (∃ v, dump W DW ⟨m₁, s⟩ n₁ T x = .ok v ∧ dump W DW ⟨m₂, s⟩ n₂ T x = .ok v) ∨
    (Raises (dump W DW ⟨m₁, s⟩ n₁ T x) ∧ Raises (dump W DW ⟨m₂, s⟩ n₂ T x)) := by
  have h := modes_dsim_dump W DW m₁ m₂ s (max n₁ n₂) T x
  rw [modes_dump_mono_le (Nat.le_max_left n₁ n₂) h₁, modes_dump_mono_le (Nat.le_max_right n₁ n₂) h₂] at h
  rcases h with h | h | h | h
  · exact absurd h h₁
  · exact absurd h h₂
  · exact Or.inl h
  · exact Or.inr h

end Adaptix.Morph
