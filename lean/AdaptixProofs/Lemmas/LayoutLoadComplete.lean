/-
  Completeness direction of the loader refinement (C03): when the datum has the shape the crown
  asks for (`specOk`), the generated loader — in every debug mode — runs to the end without
  recording an error and computes the denotational reading.
-/
import AdaptixProofs.Lemmas.LayoutLoad

namespace Adaptix.Layout

theorem assignField_of_ok (cfg : LoadCfg) (p : Path) (id : String) (v x : Val) (st : LState)
    (h : cfg.loader id v = .ok x) :
    assignField cfg p id v st = ({ st with args := st.args ++ [(id, x)] }, .ok ()) := by
  simp [assignField, h]

theorem getFromDict_of_found (cfg : LoadCfg) (p : Path) (d : Val) (req : List String) (k : String)
    (checked hnf : Bool) (st : LState) (v : Val) (h : d.getItem (.s k) = .found v) :
    getFromDict cfg p d req k checked hnf st = (st, .ok (some v, hnf)) := by
  simp [getFromDict, h]

theorem getFromList_of_found (cfg : LoadCfg) (p : Path) (d : Val) (n i : Nat) (checked : Bool) (st : LState)
    (v : Val) (h : d.getItem (.i i) = .found v) :
    getFromList cfg p d n i checked st = (st, .ok (some v)) := by
  simp [getFromList, h]

theorem fieldFromDict_of_ok (cfg : LoadCfg) (p : Path) (d : Val) (req : List String) (k id : String)
    (checked hnf : Bool) (st : LState) (hok : okFieldDict cfg d k id = true) (hmap : d.isMapping = true) :
    fieldFromDict cfg p d req k id checked hnf st =
      ({ st with args := st.args ++ specFieldDict cfg d k id }, .ok hnf) := by
  unfold okFieldDict at hok
  unfold fieldFromDict specFieldDict
  cases d <;> simp [Val.isMapping] at hmap
  rename_i kvs
  cases hg : (Val.dict kvs).getItem (.s k) with
  | found v =>
    simp only [hg] at hok
    unfold loaderOk at hok
    cases hl : cfg.loader id v with
    | error e => simp [hl] at hok
    | ok x =>
      by_cases hreq : (cfg.field id).required = true
      · simp [hreq, getFromDict_of_found _ _ _ _ _ _ _ _ _ hg, assignField_of_ok _ _ _ _ _ _ hl, hl]
      · simp [hreq, hg, assignField_of_ok _ _ _ _ _ _ hl, hl]
  | keyError =>
    simp only [hg, Bool.not_eq_eq_eq_not, Bool.not_true] at hok
    simp only [hok, Bool.false_eq_true, ↓reduceIte, hg, onLookupError]
    cases (cfg.field id).default <;> simp
  | indexError =>
    simp only [hg, Bool.not_eq_eq_eq_not, Bool.not_true] at hok
    simp only [hok, Bool.false_eq_true, ↓reduceIte, hg, onLookupError]
    cases (cfg.field id).default <;> simp
  | typeError =>
    simp only [hg, Bool.not_eq_eq_eq_not, Bool.not_true] at hok
    simp only [hok, Bool.false_eq_true, ↓reduceIte, hg, onLookupError]
    cases (cfg.field id).default <;> simp

theorem fieldFromList_of_found (cfg : LoadCfg) (p : Path) (d : Val) (n i : Nat) (id : String) (checked : Bool)
    (st : LState) (v : Val) (hg : d.getItem (.i i) = .found v) (hok : loaderOk cfg id v = true) :
    fieldFromList cfg p d n i id checked st =
      ({ st with args := st.args ++ specFieldList cfg d i id }, .ok ()) := by
  unfold loaderOk at hok
  unfold fieldFromList specFieldList
  cases hl : cfg.loader id v with
  | error e => simp [hl] at hok
  | ok x => simp [getFromList_of_found _ _ _ _ _ _ _ _ hg, assignField_of_ok _ _ _ _ _ _ hl, hg, hl]

theorem wrap_of_ok (cfg : LoadCfg) (p : Path) (dflt : Val) (st : LState) (ex : Val) :
    wrap cfg p dflt (st, .ok ex) = (st, .ok ex) := by
  unfold wrap
  split <;> rfl

theorem dictPolicy_of_ok (cfg : LoadCfg) (p : Path) (pol : Policy) (known : List String) (d : Val)
    (extra : List (String × Val)) (st : LState)
    (h : (pol != .forbid || (unknownKeys known d).isEmpty) = true) :
    dictPolicy cfg p pol known d extra st =
      (st, .ok (.dict (extra ++ (if pol = .collect then unknownItems known d else [])))) := by
  unfold dictPolicy
  cases pol <;> simp_all

theorem listLength_of_ok (cfg : LoadCfg) (p : Path) (pol : Policy) (n : Nat) (d : Val) (extra : List Val)
    (st : LState) (hlen : n ≤ d.len) (hf : (pol != .forbid || d.len == n) = true) :
    listLength cfg p pol n d extra st = (st, .ok (.list extra)) := by
  unfold listLength
  cases pol <;> simp_all <;> omega

mutual
theorem loadBranch_complete (cfg : LoadCfg) : ∀ (c : InpCrown) (p : Path) (d : Val) (st : LState),
    specOk cfg c d = true →
    loadBranch cfg p d c st = ({ st with args := st.args ++ specArgs cfg c d }, .ok (specExtra c d))
  | .dict m pol, p, d, st, hok => by
    simp only [specOk, Bool.and_eq_true] at hok
    obtain ⟨chk, hch⟩ := loadDictChildren_complete cfg m p d (requiredKeys cfg m) false false [] st hok.1.2 hok.1.1
    unfold loadBranch
    simp only [hch, hok.1.1, Bool.not_true, Bool.and_false, Bool.false_eq_true, ↓reduceIte]
    rw [dictPolicy_of_ok _ _ _ _ _ _ _ hok.2, wrap_of_ok]
    simp [specArgs, specExtra]
  | .list m pol, p, d, st, hok => by
    simp only [specOk, Bool.and_eq_true, decide_eq_true_eq, Bool.not_eq_eq_eq_not, Bool.not_true] at hok
    obtain ⟨⟨⟨⟨hseq, hstr⟩, hch⟩, hlen⟩, hpol⟩ := hok
    obtain ⟨chk, hrun⟩ := loadListChildren_complete cfg m p d m.length 0 false [] st hch (by omega) hseq
    unfold loadBranch
    simp only [hstr, Bool.false_eq_true, ↓reduceIte, hrun, hseq, Bool.not_true, Bool.and_false]
    rw [listLength_of_ok _ _ _ _ _ _ _ hlen hpol, wrap_of_ok]
    simp [specArgs, specExtra]
  | .field _, p, d, st, hok => by simp [specOk] at hok
  | .none, p, d, st, hok => by simp [specOk] at hok

theorem loadDictChildren_complete (cfg : LoadCfg) : ∀ (m : List (String × InpCrown)) (p : Path) (d : Val)
    (req : List String) (checked hnf : Bool) (extra : List (String × Val)) (st : LState),
    specOkDict cfg d m = true → d.isMapping = true →
    ∃ checked', loadDictChildren cfg p d req m checked hnf extra st =
      ({ st with args := st.args ++ specArgsDict cfg d m }, .ok (checked', extra ++ specExtraDict d m))
  | [], p, d, req, checked, hnf, extra, st, _, _ => by
    exact ⟨checked, by simp [loadDictChildren, specArgsDict, specExtraDict]⟩
  | (k, .none) :: r, p, d, req, checked, hnf, extra, st, hok, hmap => by
    simp only [specOkDict] at hok
    obtain ⟨c', h⟩ := loadDictChildren_complete cfg r p d req checked hnf extra st hok hmap
    exact ⟨c', by simp [loadDictChildren, specArgsDict, specExtraDict, h]⟩
  | (k, .field id) :: r, p, d, req, checked, hnf, extra, st, hok, hmap => by
    simp only [specOkDict, Bool.and_eq_true] at hok
    obtain ⟨c', h⟩ := loadDictChildren_complete cfg r p d req true hnf extra
      { st with args := st.args ++ specFieldDict cfg d k id } hok.2 hmap
    refine ⟨c', ?_⟩
    simp only [loadDictChildren, fieldFromDict_of_ok _ _ _ _ _ _ _ _ _ hok.1 hmap, h]
    simp [specArgsDict, specExtraDict]
  | (k, .dict m' pol) :: r, p, d, req, checked, hnf, extra, st, hok, hmap => by
    simp only [specOkDict, Bool.and_eq_true] at hok
    cases hg : d.getItem (.s k) with
    | found v =>
      simp only [hg] at hok
      have hb := loadBranch_complete cfg (.dict m' pol) (p ++ [.s k]) v st hok.1
      obtain ⟨c', h⟩ := loadDictChildren_complete cfg r p d req true hnf
        (insertExtra k (specExtra (.dict m' pol) v) extra)
        { st with args := st.args ++ specArgs cfg (.dict m' pol) v } hok.2 hmap
      refine ⟨c', ?_⟩
      simp only [loadDictChildren, getFromDict_of_found _ _ _ _ _ _ _ _ _ hg, hb, h]
      simp [specArgsDict, specExtraDict, hg, insertExtra]
    | keyError => simp [hg] at hok
    | indexError => simp [hg] at hok
    | typeError => simp [hg] at hok
  | (k, .list m' pol) :: r, p, d, req, checked, hnf, extra, st, hok, hmap => by
    simp only [specOkDict, Bool.and_eq_true] at hok
    cases hg : d.getItem (.s k) with
    | found v =>
      simp only [hg] at hok
      have hb := loadBranch_complete cfg (.list m' pol) (p ++ [.s k]) v st hok.1
      obtain ⟨c', h⟩ := loadDictChildren_complete cfg r p d req true hnf
        (insertExtra k (specExtra (.list m' pol) v) extra)
        { st with args := st.args ++ specArgs cfg (.list m' pol) v } hok.2 hmap
      refine ⟨c', ?_⟩
      simp only [loadDictChildren, getFromDict_of_found _ _ _ _ _ _ _ _ _ hg, hb, h]
      simp [specArgsDict, specExtraDict, hg, insertExtra]
    | keyError => simp [hg] at hok
    | indexError => simp [hg] at hok
    | typeError => simp [hg] at hok

theorem loadListChildren_complete (cfg : LoadCfg) : ∀ (m : List InpCrown) (p : Path) (d : Val) (n i : Nat)
    (checked : Bool) (extra : List Val) (st : LState),
    specOkList cfg d i m = true → i + m.length ≤ d.len → d.isSequence = true →
    ∃ checked', loadListChildren cfg p d n m i checked extra st =
      ({ st with args := st.args ++ specArgsList cfg d i m }, .ok (checked', extra ++ specExtraList d i m))
  | [], p, d, n, i, checked, extra, st, _, _, _ => by
    exact ⟨checked, by simp [loadListChildren, specArgsList, specExtraList]⟩
  | .none :: r, p, d, n, i, checked, extra, st, hok, hlen, hseq => by
    simp only [specOkList] at hok
    simp only [List.length_cons] at hlen
    obtain ⟨c', h⟩ := loadListChildren_complete cfg r p d n (i + 1) checked (extra ++ [.dict []]) st hok (by omega) hseq
    exact ⟨c', by simp [loadListChildren, specArgsList, specExtraList, h]⟩
  | .field id :: r, p, d, n, i, checked, extra, st, hok, hlen, hseq => by
    simp only [specOkList, Bool.and_eq_true] at hok
    simp only [List.length_cons] at hlen
    obtain ⟨v, hg⟩ := getItem_found_of_lt' hseq (show i < d.len by omega)
    simp only [hg] at hok
    obtain ⟨c', h⟩ := loadListChildren_complete cfg r p d n (i + 1) true (extra ++ [.dict []])
      { st with args := st.args ++ specFieldList cfg d i id } hok.2 (by omega) hseq
    refine ⟨c', ?_⟩
    simp only [loadListChildren, fieldFromList_of_found _ _ _ _ _ _ _ _ _ hg hok.1, h]
    simp [specArgsList, specExtraList]
  | .dict m' pol :: r, p, d, n, i, checked, extra, st, hok, hlen, hseq => by
    simp only [specOkList, Bool.and_eq_true] at hok
    simp only [List.length_cons] at hlen
    obtain ⟨v, hg⟩ := getItem_found_of_lt' hseq (show i < d.len by omega)
    simp only [hg] at hok
    have hb := loadBranch_complete cfg (.dict m' pol) (p ++ [.i i]) v st hok.1
    obtain ⟨c', h⟩ := loadListChildren_complete cfg r p d n (i + 1) true
      (extra ++ [specExtra (.dict m' pol) v])
      { st with args := st.args ++ specArgs cfg (.dict m' pol) v } hok.2 (by omega) hseq
    refine ⟨c', ?_⟩
    simp only [loadListChildren, getFromList_of_found _ _ _ _ _ _ _ _ hg, hb, h]
    simp [specArgsList, specExtraList, hg]
  | .list m' pol :: r, p, d, n, i, checked, extra, st, hok, hlen, hseq => by
    simp only [specOkList, Bool.and_eq_true] at hok
    simp only [List.length_cons] at hlen
    obtain ⟨v, hg⟩ := getItem_found_of_lt' hseq (show i < d.len by omega)
    simp only [hg] at hok
    have hb := loadBranch_complete cfg (.list m' pol) (p ++ [.i i]) v st hok.1
    obtain ⟨c', h⟩ := loadListChildren_complete cfg r p d n (i + 1) true
      (extra ++ [specExtra (.list m' pol) v])
      { st with args := st.args ++ specArgs cfg (.list m' pol) v } hok.2 (by omega) hseq
    refine ⟨c', ?_⟩
    simp only [loadListChildren, getFromList_of_found _ _ _ _ _ _ _ _ hg, hb, h]
    simp [specArgsList, specExtraList, hg]
end

/-! ### the whole generated function -/

/-- the loaders of the extra-target fields accept what they are given -/
def targetsOk (cfg : LoadCfg) (rootPolicy : Policy) (extra : Val) : List String → Bool
  | [] => true
  | t :: r =>
    (if rootPolicy == .collect then loaderOk cfg t extra
     else if (cfg.field t).required then loaderOk cfg t (.dict [])
     else true) && targetsOk cfg rootPolicy extra r

theorem assignTargets_complete (cfg : LoadCfg) (pol : Policy) (extra : Val) : ∀ (ts : List String) (st : LState),
    targetsOk cfg pol extra ts = true →
    assignTargets cfg pol extra ts st = ({ st with args := st.args ++ specTargets cfg pol extra ts }, .ok ())
  | [], st, _ => by simp [assignTargets, specTargets]
  | t :: r, st, h => by
    simp only [targetsOk, Bool.and_eq_true] at h
    unfold assignTargets specTargets
    by_cases hp : (pol == .collect) = true
    · simp only [hp, ↓reduceIte] at h ⊢
      unfold loaderOk at h
      cases hl : cfg.loader t extra with
      | error e => simp [hl] at h
      | ok x =>
        rw [assignField_of_ok _ _ _ _ _ _ hl]
        simp only []
        rw [assignTargets_complete cfg pol extra r _ h.2]
        simp
    · simp only [hp, Bool.false_eq_true, ↓reduceIte] at h ⊢
      by_cases hr : (cfg.field t).required = true
      · simp only [hr, ↓reduceIte] at h ⊢
        unfold loaderOk at h
        cases hl : cfg.loader t (.dict []) with
        | error e => simp [hl] at h
        | ok x =>
          rw [assignField_of_ok _ _ _ _ _ _ hl]
          simp only []
          rw [assignTargets_complete cfg pol extra r _ h.2]
          simp
      · simp only [hr, Bool.false_eq_true, ↓reduceIte] at h ⊢
        rw [assignTargets_complete cfg pol extra r _ h.2]
        simp

theorem assignTargets_ok_targets (cfg : LoadCfg) (pol : Policy) (extra : Val) : ∀ (ts : List String) (st st' : LState),
    assignTargets cfg pol extra ts st = (st', .ok ()) → st'.errors = st.errors → targetsOk cfg pol extra ts = true
  | [], st, st', _, _ => by simp [targetsOk]
  | t :: r, st, st', h, he => by
    unfold assignTargets at h
    unfold targetsOk
    split at h
    · rename_i hpol
      have g1 := assignField_grows cfg [] t extra st
      split at h
      · rename_i st1 heq
        rw [heq] at g1
        have g2 := assignTargets_grows cfg pol extra r st1
        rw [h] at g2
        obtain ⟨e1, e2⟩ := Grows.eq_of_eq g1 g2 he
        obtain ⟨x, hx, _⟩ := assignField_ok _ _ _ _ _ _ heq e1
        simp [hpol, loaderOk, hx, assignTargets_ok_targets cfg pol extra r st1 st' h e2]
      · rename_i hne
        exact absurd h (hne _)
    · rename_i hpol
      split at h
      · rename_i hreq
        have g1 := assignField_grows cfg [] t (.dict []) st
        split at h
        · rename_i st1 heq
          rw [heq] at g1
          have g2 := assignTargets_grows cfg pol extra r st1
          rw [h] at g2
          obtain ⟨e1, e2⟩ := Grows.eq_of_eq g1 g2 he
          obtain ⟨x, hx, _⟩ := assignField_ok _ _ _ _ _ _ heq e1
          simp [hpol, hreq, loaderOk, hx, assignTargets_ok_targets cfg pol extra r st1 st' h e2]
        · rename_i hne
          exact absurd h (hne _)
      · rename_i hreq
        simp [hpol, hreq, assignTargets_ok_targets cfg pol extra r st st' h he]

/-- the extra value handed to `**kwargs` / the saturator -/
def extraOut (cfg : LoadCfg) (crown : InpCrown) (data : Val) : Option Val :=
  match cfg.move with
  | .kwargs => some (specExtra crown data)
  | .saturate => some (specExtra crown data)
  | _ => none

/-- **refinement, both directions**: the generated loader (any debug mode, strict or not) reaches the
    constructor call iff the datum has the shape the crown asks for and the extra-target loaders accept
    the collected extra; the arguments and the extra are then the denotational reading. -/
theorem loadModel_ok_iff (cfg : LoadCfg) (crown : InpCrown) (data : Val) (args : List (String × Val))
    (extra : Option Val) :
    loadModel cfg crown data = .ok args extra ↔
      (specOk cfg crown data = true ∧
       targetsOk cfg crown.policy (specExtra crown data) cfg.move.targetIds = true ∧
       args = specArgs cfg crown data ++ specTargets cfg crown.policy (specExtra crown data) cfg.move.targetIds ∧
       extra = extraOut cfg crown data) := by
  constructor
  · intro h
    obtain ⟨hok, hargs, hex⟩ := loadModel_ok cfg crown data args extra h
    refine ⟨hok, ?_, hargs, by rw [hex]; unfold extraOut; cases cfg.move <;> rfl⟩
    -- the successful run of `assignTargets`
    unfold loadModel at h
    rw [loadBranch_complete cfg crown [] data {} hok] at h
    simp only [] at h
    split at h
    · simp at h
    · simp at h
    · rename_i st' heq2
      split at h
      · simp at h
      · rename_i herr
        have he : st'.errors = ({ args := ([] : List (String × Val)) ++ specArgs cfg crown data } : LState).errors := by
          simp only [Bool.not_eq_true, Bool.not_eq_false', List.isEmpty_iff] at herr
          simpa using herr
        exact assignTargets_ok_targets cfg _ _ _ _ _ heq2 he
  · rintro ⟨hok, ht, rfl, rfl⟩
    unfold loadModel
    rw [loadBranch_complete cfg crown [] data {} hok]
    simp only []
    rw [assignTargets_complete cfg _ _ _ _ ht]
    simp only [extraOut]
    cases cfg.move <;> simp

/-! ### a missing required key of a flat dict layout (DISABLE / FIRST) -/

/-- every child of the dict node is a field leaf -/
def allFields : List (String × InpCrown) → Bool
  | [] => true
  | (_, .field _) :: r => allFields r
  | _ => false

theorem requiredKeys_mem_allFields (cfg : LoadCfg) : ∀ (m : List (String × InpCrown)), allFields m = true →
    ∀ k, k ∈ requiredKeys cfg m → ∃ id, (k, InpCrown.field id) ∈ m ∧ (cfg.field id).required = true
  | [], _, k, hk => by simp [requiredKeys] at hk
  | (k0, .field id) :: r, hf, k, hk => by
    simp only [allFields] at hf
    simp only [requiredKeys] at hk
    split at hk
    · rename_i hreq
      simp only [List.mem_cons] at hk
      rcases hk with rfl | hk
      · exact ⟨id, by simp, hreq⟩
      · obtain ⟨id', hm, hr⟩ := requiredKeys_mem_allFields cfg r hf k hk
        exact ⟨id', by simp [hm], hr⟩
    · obtain ⟨id', hm, hr⟩ := requiredKeys_mem_allFields cfg r hf k hk
      exact ⟨id', by simp [hm], hr⟩
  | (k0, .none) :: r, hf, _, _ => by simp [allFields] at hf
  | (k0, .dict _ _) :: r, hf, _, _ => by simp [allFields] at hf
  | (k0, .list _ _) :: r, hf, _, _ => by simp [allFields] at hf

/-- the children loop of a flat root dict node stops at the first missing required key with the
    `NoRequiredFieldsLoadError` naming all missing required keys -/
theorem loadDictChildren_missing (cfg : LoadCfg) (hmode : cfg.mode ≠ .all) (kvs : List (String × Val))
    (req : List String) : ∀ (r : List (String × InpCrown)), allFields r = true →
    (∀ k id, (k, InpCrown.field id) ∈ r → ∀ v, Val.lookup k kvs = some v → loaderOk cfg id v = true) →
    (∃ k id, (k, InpCrown.field id) ∈ r ∧ (cfg.field id).required = true ∧ Val.lookup k kvs = none) →
    ∀ (checked hnf : Bool) (extra : List (String × Val)) (st : LState),
    ∃ st', loadDictChildren cfg [] (.dict kvs) req r checked hnf extra st =
      (st', .raised ⟨[], .noRequiredFields (req.filter fun k => !(Val.dict kvs).keys.contains k) (.dict kvs)⟩)
  | [], _, _, hmiss, _, _, _, _ => by
    obtain ⟨k, id, hm, _⟩ := hmiss
    simp at hm
  | (k0, .field id0) :: r, hf, hpres, hmiss, checked, hnf, extra, st => by
    simp only [allFields] at hf
    unfold loadDictChildren
    by_cases hhere : (cfg.field id0).required = true ∧ Val.lookup k0 kvs = none
    · -- this child is the missing one
      refine ⟨st, ?_⟩
      have hg : (Val.dict kvs).getItem (.s k0) = .keyError := by simp [Val.getItem, hhere.2]
      unfold fieldFromDict getFromDict notFoundDict
      simp only [hhere.1, ↓reduceIte, hg]
      cases hm : cfg.mode with
      | all => exact absurd hm hmode
      | disable => simp [withTrail, hm]
      | first => simp [withTrail, hm]
    · -- this child loads fine, the missing key is further on
      have hok : okFieldDict cfg (.dict kvs) k0 id0 = true := by
        unfold okFieldDict
        cases hl : Val.lookup k0 kvs with
        | some v =>
          simp only [Val.getItem, hl]
          exact hpres k0 id0 (by simp) v hl
        | none =>
          simp only [Val.getItem, hl]
          cases hr : (cfg.field id0).required
          · rfl
          · exact absurd ⟨hr, hl⟩ hhere
      rw [fieldFromDict_of_ok cfg [] (.dict kvs) req k0 id0 checked hnf st hok rfl]
      simp only []
      have hmiss' : ∃ k id, (k, InpCrown.field id) ∈ r ∧ (cfg.field id).required = true ∧
          Val.lookup k kvs = none := by
        obtain ⟨k, id, hm, hr, hl⟩ := hmiss
        simp only [List.mem_cons, Prod.mk.injEq, InpCrown.field.injEq] at hm
        rcases hm with ⟨rfl, rfl⟩ | hm
        · exact absurd ⟨hr, hl⟩ hhere
        · exact ⟨k, id, hm, hr, hl⟩
      exact loadDictChildren_missing cfg hmode kvs req r hf
        (fun k id hm => hpres k id (by simp [hm])) hmiss' true hnf extra _
  | (k0, .none) :: r, hf, _, _, _, _, _, _ => by simp [allFields] at hf
  | (k0, .dict _ _) :: r, hf, _, _, _, _, _, _ => by simp [allFields] at hf
  | (k0, .list _ _) :: r, hf, _, _, _, _, _, _ => by simp [allFields] at hf

end Adaptix.Layout
