/-
  Crown round trip (C03, reused by C01): loading what the generated dumper wrote, through the same
  layout, gives back the field values — for identity field codecs, no omit_default sieve and an
  object that has every field of the crown.
-/
import AdaptixProofs.Lemmas.LayoutLoadComplete
import AdaptixProofs.Lemmas.LayoutDump

namespace Adaptix.Layout

/-- the input crown with the same tree as an output crown (policy `pol` on every branch) -/
def OutCrown.toInpCrown (pol : Policy) : OutCrown → InpCrown
  | .dict m _ => .dict (goD m) pol
  | .list m => .list (goL m) pol
  | .field id => .field id
  | .none _ => .none
where
  goD : List (String × OutCrown) → List (String × InpCrown)
    | [] => []
    | (k, c) :: r => (k, OutCrown.toInpCrown pol c) :: goD r
  goL : List OutCrown → List InpCrown
    | [] => []
    | c :: r => OutCrown.toInpCrown pol c :: goL r

mutual
/-- no omit_default sieve anywhere -/
def OutCrown.noSieves : OutCrown → Bool
  | .dict m s => s.isEmpty && OutCrown.noSievesD m
  | .list m => OutCrown.noSievesL m
  | .field _ => true
  | .none _ => true
def OutCrown.noSievesD : List (String × OutCrown) → Bool
  | [] => true
  | (_, c) :: r => OutCrown.noSieves c && OutCrown.noSievesD r
def OutCrown.noSievesL : List OutCrown → Bool
  | [] => true
  | c :: r => OutCrown.noSieves c && OutCrown.noSievesL r
end

/-- every field of the crown has been extracted -/
def AllVals (vals : List (String × Val)) (ids : List String) : Prop :=
  ∀ id ∈ ids, ∃ v, Val.lookup id vals = some v

/-- the bindings of the crown's fields, in crown order -/
def fieldVals (vals : List (String × Val)) (ids : List String) : List (String × Val) :=
  ids.map fun id => (id, (Val.lookup id vals).getD .none)

theorem knownKeys_toInp (pol : Policy) : ∀ (m : List (String × OutCrown)),
    knownKeys (OutCrown.toInpCrown.goD pol m) = m.map (·.1)
  | [] => rfl
  | (k, c) :: r => by simp [OutCrown.toInpCrown.goD, knownKeys, knownKeys_toInp pol r]

theorem length_toInpL (pol : Policy) : ∀ (m : List OutCrown), (OutCrown.toInpCrown.goL pol m).length = m.length
  | [] => rfl
  | c :: r => by simp [OutCrown.toInpCrown.goL, length_toInpL pol r]

theorem length_dumpList (cfg : DumpCfg) (obj vals : List (String × Val)) : ∀ (r : List OutCrown),
    (dumpList cfg obj vals r).length = r.length
  | [] => rfl
  | c :: t => by simp [dumpList, length_dumpList cfg obj vals t]

/-- with no sieve and the field extracted, every key of the node is written with its rendered crown -/
theorem dictEntry_noSieve (cfg : DumpCfg) (obj vals : List (String × Val)) (k : String) (c : OutCrown)
    (hv : AllVals vals c.fieldIds) :
    dictEntry cfg obj vals [] k c = some (dumpCrown cfg obj vals c) := by
  unfold dictEntry optEntry
  cases c with
  | field id =>
    obtain ⟨v, hvv⟩ := hv id (by simp [OutCrown.fieldIds])
    simp [dumpCrown, hvv]
  | none ph => simp [isRequiredCrown]
  | dict m s => simp [isRequiredCrown]
  | list m => simp [isRequiredCrown]

section
variable (cfgL : LoadCfg) (cfgD : DumpCfg) (obj vals : List (String × Val)) (pol : Policy)
variable (hid : ∀ id v, cfgL.loader id v = .ok v)
include hid

mutual
theorem roundtrip_crown : ∀ (c : OutCrown), c.wf cfgD = true → c.noSieves = true → AllVals vals c.fieldIds →
    (c.isField = false ∧ (∀ ph, c ≠ .none ph)) →
    specOk cfgL (c.toInpCrown pol) (dumpCrown cfgD obj vals c) = true ∧
      specArgs cfgL (c.toInpCrown pol) (dumpCrown cfgD obj vals c) = fieldVals vals c.fieldIds
  | .dict m s, hwf, hns, hv, _ => by
    simp only [OutCrown.wf, Bool.and_eq_true] at hwf
    simp only [OutCrown.noSieves, Bool.and_eq_true, List.isEmpty_iff] at hns
    obtain ⟨rfl, hns⟩ := hns
    have hch := roundtrip_dict m hwf.1 m (fun _ h => h) hwf.2 hns (by simpa [OutCrown.fieldIds] using hv)
    have hunk : unknownKeys (knownKeys (OutCrown.toInpCrown.goD pol m))
        (dumpCrown cfgD obj vals (.dict m [])) = [] := by
      simp only [unknownKeys, unknownItems, dumpCrown, knownKeys_toInp, List.map_eq_nil_iff,
        List.filter_eq_nil_iff]
      intro kv hkv
      obtain ⟨c, hc⟩ := dumpDict_keys_subset cfgD obj vals [] m kv.1 kv.2 hkv
      simpa using ⟨c, hc⟩
    simp only [OutCrown.toInpCrown, specOk, specArgs, dumpCrown] at hch hunk ⊢
    simp [Val.isMapping, hch.1, hch.2, hunk, OutCrown.fieldIds]
  | .list m, hwf, hns, hv, _ => by
    simp only [OutCrown.wf] at hwf
    simp only [OutCrown.noSieves] at hns
    have hch := roundtrip_list m [] m rfl hwf hns (by simpa [OutCrown.fieldIds] using hv)
    simp only [OutCrown.toInpCrown, specOk, specArgs, dumpCrown, List.length_nil] at hch ⊢
    simp [Val.isSequence, Val.isStr, Val.len, length_toInpL, length_dumpList, hch.1, hch.2, OutCrown.fieldIds]
  | .field id, _, _, _, h => by simp [OutCrown.isField] at h
  | .none ph, _, _, _, h => absurd rfl (h.2 ph)

/-- children `r` of the dict node whose whole map is `m0` -/
theorem roundtrip_dict (m0 : List (String × OutCrown)) (hn : keysNodup m0 = true) :
    ∀ (r : List (String × OutCrown)), (∀ x ∈ r, x ∈ m0) → OutCrown.wfD cfgD [] r = true →
    OutCrown.noSievesD r = true → AllVals vals (OutCrown.fieldIds.goD r) →
    specOkDict cfgL (.dict (dumpDictReq cfgD obj vals [] m0 ++ dumpDictOpt cfgD obj vals [] m0))
        (OutCrown.toInpCrown.goD pol r) = true ∧
      specArgsDict cfgL (.dict (dumpDictReq cfgD obj vals [] m0 ++ dumpDictOpt cfgD obj vals [] m0))
        (OutCrown.toInpCrown.goD pol r) = fieldVals vals (OutCrown.fieldIds.goD r)
  | [], _, _, _, _ => by simp [OutCrown.toInpCrown.goD, specOkDict, specArgsDict, OutCrown.fieldIds.goD, fieldVals]
  | (k, c) :: r, hsub, hwf, hns, hv => by
    simp only [OutCrown.wfD, Bool.and_eq_true] at hwf
    simp only [OutCrown.noSievesD, Bool.and_eq_true] at hns
    have hv1 : AllVals vals c.fieldIds := fun id h => hv id (by simp [OutCrown.fieldIds.goD, h])
    have hv2 : AllVals vals (OutCrown.fieldIds.goD r) := fun id h => hv id (by simp [OutCrown.fieldIds.goD, h])
    have ih := roundtrip_dict m0 hn r (fun x hx => hsub x (by simp [hx])) hwf.2 hns.2 hv2
    have hlk := lookup_dumpDict cfgD obj vals [] k c m0 hn (hsub _ (by simp))
    rw [dictEntry_noSieve cfgD obj vals k c hv1] at hlk
    have hget : (Val.dict (dumpDictReq cfgD obj vals [] m0 ++ dumpDictOpt cfgD obj vals [] m0)).getItem (.s k) =
        .found (dumpCrown cfgD obj vals c) := by simp [Val.getItem, hlk]
    cases c with
    | field id =>
      obtain ⟨v, hvv⟩ := hv1 id (by simp [OutCrown.fieldIds])
      simp only [OutCrown.toInpCrown.goD, OutCrown.toInpCrown, specOkDict, specArgsDict, okFieldDict,
        specFieldDict, hget, loaderOk, hid, ih.1, ih.2, Bool.and_self]
      simp [OutCrown.fieldIds.goD, OutCrown.fieldIds, fieldVals, dumpCrown, hvv]
    | none ph =>
      simp only [OutCrown.toInpCrown.goD, OutCrown.toInpCrown, specOkDict, specArgsDict, ih.1, ih.2]
      simp [OutCrown.fieldIds.goD, OutCrown.fieldIds]
    | dict m' s' =>
      have hc := roundtrip_crown (.dict m' s') hwf.1.2 hns.1 hv1 (by simp [OutCrown.isField])
      simp only [OutCrown.toInpCrown] at hc
      simp only [OutCrown.toInpCrown.goD, OutCrown.toInpCrown, specOkDict, specArgsDict, hget, hc.1, hc.2,
        ih.1, ih.2, Bool.and_self]
      simp [OutCrown.fieldIds.goD, fieldVals]
    | list m' =>
      have hc := roundtrip_crown (.list m') hwf.1.2 hns.1 hv1 (by simp [OutCrown.isField])
      simp only [OutCrown.toInpCrown] at hc
      simp only [OutCrown.toInpCrown.goD, OutCrown.toInpCrown, specOkDict, specArgsDict, hget, hc.1, hc.2,
        ih.1, ih.2, Bool.and_self]
      simp [OutCrown.fieldIds.goD, fieldVals]

/-- children `r` of the list node whose whole map is `m0 = pre ++ r` -/
theorem roundtrip_list (m0 : List OutCrown) : ∀ (pre r : List OutCrown), m0 = pre ++ r →
    OutCrown.wfL cfgD r = true → OutCrown.noSievesL r = true → AllVals vals (OutCrown.fieldIds.goL r) →
    specOkList cfgL (.list (dumpList cfgD obj vals m0)) pre.length (OutCrown.toInpCrown.goL pol r) = true ∧
      specArgsList cfgL (.list (dumpList cfgD obj vals m0)) pre.length (OutCrown.toInpCrown.goL pol r) =
        fieldVals vals (OutCrown.fieldIds.goL r)
  | pre, [], _, _, _, _ => by
    simp [OutCrown.toInpCrown.goL, specOkList, specArgsList, OutCrown.fieldIds.goL, fieldVals]
  | pre, c :: r, hm0, hwf, hns, hv => by
    simp only [OutCrown.wfL, Bool.and_eq_true] at hwf
    simp only [OutCrown.noSievesL, Bool.and_eq_true] at hns
    have hv1 : AllVals vals c.fieldIds := fun id h => hv id (by simp [OutCrown.fieldIds.goL, h])
    have hv2 : AllVals vals (OutCrown.fieldIds.goL r) := fun id h => hv id (by simp [OutCrown.fieldIds.goL, h])
    have ih := roundtrip_list m0 (pre ++ [c]) r (by simp [hm0]) hwf.2 hns.2 hv2
    simp only [List.length_append, List.length_cons, List.length_nil, Nat.zero_add] at ih
    have hget : (Val.list (dumpList cfgD obj vals m0)).getItem (.i pre.length) =
        .found (dumpCrown cfgD obj vals c) := by
      simp [Val.getItem, getElem?_dumpList, hm0]
    cases c with
    | field id =>
      obtain ⟨v, hvv⟩ := hv1 id (by simp [OutCrown.fieldIds])
      simp only [OutCrown.toInpCrown.goL, OutCrown.toInpCrown, specOkList, specArgsList, specFieldList, hget,
        loaderOk, hid, ih.1, ih.2, Bool.and_self]
      simp [OutCrown.fieldIds.goL, OutCrown.fieldIds, fieldVals, dumpCrown, hvv]
    | none ph =>
      simp only [OutCrown.toInpCrown.goL, OutCrown.toInpCrown, specOkList, specArgsList, ih.1, ih.2]
      simp [OutCrown.fieldIds.goL, OutCrown.fieldIds]
    | dict m' s' =>
      have hc := roundtrip_crown (.dict m' s') hwf.1.2 hns.1 hv1 (by simp [OutCrown.isField])
      simp only [OutCrown.toInpCrown] at hc
      simp only [OutCrown.toInpCrown.goL, OutCrown.toInpCrown, specOkList, specArgsList, hget, hc.1, hc.2,
        ih.1, ih.2, Bool.and_self]
      simp [OutCrown.fieldIds.goL, fieldVals]
    | list m' =>
      have hc := roundtrip_crown (.list m') hwf.1.2 hns.1 hv1 (by simp [OutCrown.isField])
      simp only [OutCrown.toInpCrown] at hc
      simp only [OutCrown.toInpCrown.goL, OutCrown.toInpCrown, specOkList, specArgsList, hget, hc.1, hc.2,
        ih.1, ih.2, Bool.and_self]
      simp [OutCrown.fieldIds.goL, fieldVals]
end
end

end Adaptix.Layout
