/-
  C02 — helper lemmas, part 2: every loader of the model (mode DISABLE) against the
  functional specification `specLoad`, and the master agreement lemma
  `spec_load_agrees` (induction on the fuel).
-/
import AdaptixProofs.Lemmas.MorphSpecSeq

namespace Adaptix.Morph
open Adaptix.Py
open Adaptix.Morph.C02

/-! ### type-expression predicates -/

theorem spec_tyAllL_iff {P : Ty → Prop} : ∀ {cs : List Ty}, TyAllL P cs ↔ ∀ c ∈ cs, TyAll P c
  | [] => by simp [TyAllL]
  | c :: cs => by simp [TyAllL, spec_tyAllL_iff (cs := cs)]

theorem spec_tyAll_head {P : Ty → Prop} : ∀ {T : Ty}, TyAll P T → P T
  | .union _ _, h => h.1
  | .iter _ _ _, h => h.1
  | .tuple _, h => h.1
  | .dict _ _, h => h.1
  | .scalar _, h => h
  | .any, h => h
  | .literal _, h => h
  | .model _, h => h

mutual
  theorem spec_tyAll_and {P Q : Ty → Prop} : ∀ {T : Ty}, TyAll P T → TyAll Q T → TyAll (fun t => P t ∧ Q t) T
    | .union _ _, hp, hq => ⟨⟨hp.1, hq.1⟩, spec_tyAllL_and hp.2 hq.2⟩
    | .iter _ _ _, hp, hq => ⟨⟨hp.1, hq.1⟩, spec_tyAll_and hp.2 hq.2⟩
    | .tuple _, hp, hq => ⟨⟨hp.1, hq.1⟩, spec_tyAllL_and hp.2 hq.2⟩
    | .dict _ _, hp, hq => ⟨⟨hp.1, hq.1⟩, spec_tyAll_and hp.2.1 hq.2.1, spec_tyAll_and hp.2.2 hq.2.2⟩
    | .scalar _, hp, hq => ⟨hp, hq⟩
    | .any, hp, hq => ⟨hp, hq⟩
    | .literal _, hp, hq => ⟨hp, hq⟩
    | .model _, hp, hq => ⟨hp, hq⟩
  theorem spec_tyAllL_and {P Q : Ty → Prop} : ∀ {cs : List Ty}, TyAllL P cs → TyAllL Q cs →
      TyAllL (fun t => P t ∧ Q t) cs
    | [], _, _ => trivial
    | _ :: _, hp, hq => ⟨spec_tyAll_and hp.1 hq.1, spec_tyAllL_and hp.2 hq.2⟩
end

mutual
  theorem spec_tyAll_imp {P Q : Ty → Prop} (hpq : ∀ t, P t → Q t) : ∀ {T : Ty}, TyAll P T → TyAll Q T
    | .union _ _, hp => ⟨hpq _ hp.1, spec_tyAllL_imp hpq hp.2⟩
    | .iter _ _ _, hp => ⟨hpq _ hp.1, spec_tyAll_imp hpq hp.2⟩
    | .tuple _, hp => ⟨hpq _ hp.1, spec_tyAllL_imp hpq hp.2⟩
    | .dict _ _, hp => ⟨hpq _ hp.1, spec_tyAll_imp hpq hp.2.1, spec_tyAll_imp hpq hp.2.2⟩
    | .scalar _, hp => hpq _ hp
    | .any, hp => hpq _ hp
    | .literal _, hp => hpq _ hp
    | .model _, hp => hpq _ hp
  theorem spec_tyAllL_imp {P Q : Ty → Prop} (hpq : ∀ t, P t → Q t) : ∀ {cs : List Ty},
      TyAllL P cs → TyAllL Q cs
    | [], _ => trivial
    | _ :: _, hp => ⟨spec_tyAll_imp hpq hp.1, spec_tyAllL_imp hpq hp.2⟩
end

mutual
  theorem spec_tyAll_of_forall {P : Ty → Prop} (h : ∀ t, P t) : ∀ T : Ty, TyAll P T
    | .union _ _ => ⟨h _, spec_tyAllL_of_forall h _⟩
    | .iter _ _ e => ⟨h _, spec_tyAll_of_forall h e⟩
    | .tuple es => ⟨h _, spec_tyAllL_of_forall h es⟩
    | .dict k v => ⟨h _, spec_tyAll_of_forall h k, spec_tyAll_of_forall h v⟩
    | .scalar _ => h _
    | .any => h _
    | .literal _ => h _
    | .model _ => h _
  theorem spec_tyAllL_of_forall {P : Ty → Prop} (h : ∀ t, P t) : ∀ cs : List Ty, TyAllL P cs
    | [] => trivial
    | c :: cs => ⟨spec_tyAll_of_forall h c, spec_tyAllL_of_forall h cs⟩
end

theorem spec_depthL_le {n : Nat} : ∀ {cs : List Ty}, depthL cs ≤ n ↔ ∀ c ∈ cs, depth c ≤ n
  | [] => by simp [depthL]
  | c :: cs => by simp [depthL, Nat.max_le, spec_depthL_le (cs := cs)]

theorem spec_depth_pos : ∀ T : Ty, 0 < depth T
  | .union _ _ => by simp [depth]
  | .iter _ _ _ => by simp [depth]
  | .tuple _ => by simp [depth]
  | .dict _ _ => by simp [depth]
  | .scalar _ => by simp [depth]
  | .any => by simp [depth]
  | .literal _ => by simp [depth]
  | .model _ => by simp [depth]

/-- the per-node side conditions of the agreement lemma -/
def spec_Good (W : World) (strict : Bool) (t : Ty) : Prop := (NotModel t ∧ LitOK t) ∧ OptOK W strict t

theorem spec_good_of {W : World} {strict : Bool} {T : Ty}
    (hm : ModelFree T) (hl : LitAtomic T) (ho : OptionalOK W strict T) : TyAll (spec_Good W strict) T :=
  spec_tyAll_and (spec_tyAll_and hm hl) ho

/-! ### leaves -/

theorem spec_okVal_agrees (o : Outcome Val) : Agrees o (okVal o) := by
  cases o with
  | ok v => exact spec_agrees_of_ok v
  | err e => exact spec_agrees_of_err e
  | escape x => exact spec_agrees_escape _ _
  | diverge => exact spec_agrees_diverge _

/-! ### Literal -/

/-- `==` against a None / bool / int / str value does not depend on the side -/
theorem spec_pyEq_comm_atom {v : Val} (hv : litAtom v = true) (d : Val) : Val.pyEq v d = Val.pyEq d v := by
  cases v <;> simp [litAtom] at hv <;> cases d <;> simp [Val.pyEq, Bool.beq_comm]

theorem spec_memOf_any (d : Val) (vals : List Val) : Val.memOf d vals = vals.any fun v => Val.pyEq d v := by
  induction vals with
  | nil => simp [Val.memOf]
  | cons v vs ih => simp [Val.memOf, ih]

theorem spec_boolSensitive (vals : List Val) : boolSensitive vals = vals.any boolLike := by
  unfold boolSensitive
  congr 1

theorem spec_loadLiteral {strict : Bool} {vals : List Val} (hv : ∀ v ∈ vals, litAtom v = true) (d : Val) :
    loadLiteral strict vals d =
      if litAccepts strict vals d then .ok d else .err (LErr.leaf "BadVariantLoadError" d) := by
  unfold loadLiteral litAccepts
  rw [spec_boolSensitive]
  have key : (if (strict && vals.any boolLike) = true then typedMem d vals else Val.memOf d vals) =
      vals.any fun v => Val.pyEq d v && (!(strict && vals.any boolLike) || v.tag == d.tag) := by
    cases hs : (strict && vals.any boolLike)
    · simp [spec_memOf_any]
    · simp only [if_true, typedMem, Bool.not_true, Bool.false_or]
      rw [Bool.eq_iff_iff]
      simp only [List.any_eq_true]
      constructor
      · rintro ⟨v, hvm, h⟩
        refine ⟨v, hvm, ?_⟩
        rw [← spec_pyEq_comm_atom (hv v hvm), Bool.and_comm]; exact h
      · rintro ⟨v, hvm, h⟩
        refine ⟨v, hvm, ?_⟩
        rw [spec_pyEq_comm_atom (hv v hvm), Bool.and_comm]; exact h
  simp only [key]

theorem spec_litAccepts_iff (strict : Bool) (vals : List Val) (d : Val) :
    litAccepts strict vals d = true ↔ LitAccepts strict vals d := by
  unfold litAccepts LitAccepts
  simp only [List.any_eq_true, Bool.and_eq_true, Bool.or_eq_true, Bool.not_eq_true', beq_iff_eq,
    Bool.and_eq_false_imp]
  constructor
  · rintro ⟨v, hv, he, ht⟩
    refine ⟨v, hv, he, fun hs hb => ?_⟩
    rcases ht with ht | ht
    · exfalso
      have := ht hs
      obtain ⟨w, hw, hbw⟩ := hb
      have h2 : vals.any boolLike = true := List.any_eq_true.mpr ⟨w, hw, hbw⟩
      rw [this] at h2; cases h2
    · exact ht
  · rintro ⟨v, hv, he, ht⟩
    refine ⟨v, hv, he, ?_⟩
    by_cases hs : strict = true
    · by_cases hb : vals.any boolLike = true
      · right; exact ht hs (List.any_eq_true.mp hb)
      · left; intro _; simpa using hb
    · left; intro h; exact absurd h hs

theorem spec_loadLiteral_agrees {strict : Bool} {vals : List Val} (hv : ∀ v ∈ vals, litAtom v = true)
    (d : Val) :
    Agrees (loadLiteral strict vals d) (if litAccepts strict vals d then some d else none) := by
  rw [spec_loadLiteral hv]
  split
  · exact spec_agrees_of_ok _
  · exact spec_agrees_of_err _

/-! ### iterables, tuples, dicts -/

theorem spec_iterAccepts_none_of_excluded {strict : Bool} {d : Val} {m : DebugTrail}
    (h : strictExcluded ⟨m, strict⟩ d = true) : iterAccepts strict d = none := by
  simp only [strictExcluded] at h
  simp [iterAccepts, h]

theorem spec_iterAccepts_of_not_excluded {strict : Bool} {d : Val} {m : DebugTrail}
    (h : ¬ strictExcluded ⟨m, strict⟩ d = true) : iterAccepts strict d = d.iterElems := by
  simp only [strictExcluded] at h
  simp [iterAccepts, h]

theorem spec_loadIter_agrees {strict : Bool} {f : Factory} {ld : Val → Outcome Val}
    {sp : Val → Option Val} (h : ∀ x, Agrees (ld x) (sp x)) (d : Val) :
    Agrees (loadIter ⟨.disable, strict⟩ f ld d)
      (match iterAccepts strict d with
       | none => none
       | some xs =>
         match mapOpt sp xs with
         | none => none
         | some ys => container f ys) := by
  unfold loadIter
  split
  · rename_i hx
    rw [spec_iterAccepts_none_of_excluded hx]; exact spec_agrees_of_err _
  · rename_i hx
    rw [spec_iterAccepts_of_not_excluded hx]
    cases hxs : d.iterElems with
    | none => exact spec_agrees_of_err _
    | some xs =>
      simp only [seqMode]
      have h1 := spec_seqDisable_map (f := ld) (g := sp) (xs := xs) (fun x _ => h x)
      have h2 := spec_bindO_agrees (k := f.build) (k' := container f) h1
        (fun ys _ => spec_build_agrees f ys)
      cases hm : mapOpt sp xs with
      | none => rw [hm] at h2; exact h2
      | some ys => rw [hm] at h2; exact h2

theorem spec_loadTuple_agrees {strict : Bool} {ts : List Ty} {ld : Ty → Val → Outcome Val}
    {sp : Ty → Val → Option Val} (h : ∀ t ∈ ts, ∀ x, Agrees (ld t x) (sp t x)) (d : Val) :
    Agrees (loadTuple ⟨.disable, strict⟩ (ts.map fun t => ld t) d)
      (match iterAccepts strict d with
       | none => none
       | some xs =>
         if xs.length = ts.length then (allSome (zipWithOpt sp ts xs)).map Val.tuple else none) := by
  unfold loadTuple
  split
  · rename_i hx
    rw [spec_iterAccepts_none_of_excluded hx]; exact spec_agrees_of_err _
  · rename_i hx
    rw [spec_iterAccepts_of_not_excluded hx]
    cases hxs : d.iterElems with
    | none => exact spec_agrees_of_err _
    | some xs =>
      simp only [seqMode, List.length_map]
      by_cases h1 : xs.length > ts.length
      · rw [if_pos h1, if_neg (by omega)]; exact spec_agrees_of_err _
      · rw [if_neg h1]
        by_cases h2 : xs.length < ts.length
        · rw [if_pos h2, if_neg (by omega)]; exact spec_agrees_of_err _
        · rw [if_neg h2, if_pos (by omega)]
          have h3 := spec_seqDisable_zip (ld := ld) (sp := sp) (ts := ts) (xs := xs) h
          have h4 := spec_bindO_agrees (k := fun ys => Outcome.ok (Val.tuple ys))
            (k' := fun ys => some (Val.tuple ys)) h3 (fun ys _ => spec_agrees_of_ok _)
          cases hm : allSome (zipWithOpt sp ts xs) with
          | none => rw [hm] at h4; exact h4
          | some ys => rw [hm] at h4; exact h4

theorem spec_loadDict_agrees {strict : Bool} {key value : Val → Outcome Val}
    {gk gv : Val → Option Val} (hk : ∀ x, Agrees (key x) (gk x)) (hv : ∀ x, Agrees (value x) (gv x))
    (d : Val) :
    Agrees (loadDict ⟨.disable, strict⟩ key value d)
      (match d with
       | .dict kvs =>
         match mapOpt (pairOpt gk gv) kvs with
         | none => none
         | some pairs =>
           if pairs.all (fun p => p.1.hashable) then some (.dict (insertAll pairs)) else none
       | _ => none) := by
  unfold loadDict
  cases d <;> try exact spec_agrees_of_err _
  rename_i kvs
  have hvf : ((⟨.disable, strict⟩ : Cfg).trail == DebugTrail.disable) = true := rfl
  simp only [hvf, seqMode]
  have h1 := spec_seqDisable_dict (key := key) (value := value) (gk := gk) (gv := gv) (kvs := kvs)
    (fun p _ => ⟨hk p.1, hv p.2⟩)
  cases hm : mapOpt (pairOpt gk gv) kvs with
  | none =>
    rw [hm] at h1
    have := spec_bindO_agrees (k := fun flat => buildDict true flat []) (k' := fun _ => (none : Option Val))
      h1 (fun _ h => by cases h)
    simpa using this
  | some pairs =>
    rw [hm] at h1
    have := spec_bindO_agrees (k := fun flat => buildDict true flat [])
      (k' := fun _ => if pairs.all (fun p => p.1.hashable) then some (Val.dict (insertAll pairs)) else none)
      h1 (fun flat h => by
        simp only [Option.map_some, Option.some.injEq] at h
        subst h
        rw [spec_buildDict_flat]
        unfold insertAll
        split
        · exact spec_agrees_of_ok _
        · exact spec_agrees_escape _ _)
    simpa using this

/-! ### Union -/

theorem spec_unionFirstOk {ld : Ty → Outcome Val} {sp : Ty → Option Val} :
    ∀ (cs : List Ty) (errs : List LErr), (∀ c ∈ cs, Agrees (ld c) (sp c)) →
      (∀ v, (unionFirstOk (cs.map ld) errs).1 = .ok v → firstSome sp cs = some v) ∧
      (∀ e, (unionFirstOk (cs.map ld) errs).1 = .err e → firstSome sp cs = none)
  | [], errs, _ => by simp [unionFirstOk, firstSome]
  | c :: cs, errs, h => by
    have hc := h c (by simp)
    have ih := fun errs' => spec_unionFirstOk (ld := ld) (sp := sp) cs errs' (fun c' hc' => h c' (by simp [hc']))
    simp only [List.map_cons, unionFirstOk, firstSome]
    cases ho : ld c with
    | ok v =>
      rw [ho] at hc; rw [hc.1 v rfl]
      exact ⟨fun v' hv' => (by cases hv'; rfl), fun e he => (by cases he)⟩
    | err e =>
      rw [ho] at hc; rw [hc.2 e rfl]
      exact ih _
    | escape x => exact ⟨fun v' hv' => (by cases hv'), fun e he => (by cases he)⟩
    | diverge => exact ⟨fun v' hv' => (by cases hv'), fun e he => (by cases he)⟩

/-- the general branch: "the first loader that does not raise LoadError" -/
theorem spec_loadUnion_general_agrees {strict : Bool} {cs : List Ty} {ld : Ty → Val → Outcome Val}
    {sp : Ty → Option Val} {d : Val} (h : ∀ c ∈ cs, Agrees (ld c d) (sp c)) :
    Agrees (loadUnion.general ⟨.disable, strict⟩ cs ld d) (firstSome sp cs) := by
  unfold loadUnion.general
  have h1 := spec_unionFirstOk (ld := fun c => ld c d) (sp := sp) cs [] h
  simp only
  generalize unionFirstOk (cs.map fun c => ld c d) [] = r at h1
  obtain ⟨o, errs⟩ := r
  cases o with
  | ok v => exact ⟨fun a ha => (by cases ha; exact h1.1 v rfl), fun e he => (by cases he)⟩
  | err e => exact ⟨fun a ha => (by cases ha), fun _ _ => h1.2 e rfl⟩
  | escape x => exact spec_agrees_escape _ _
  | diverge => exact spec_agrees_diverge _

theorem spec_isNoneTy_eq (c : Ty) : isNoneTy c = isNoneCase c := by
  unfold isNoneTy isNoneCase
  split <;> split <;> simp_all

theorem spec_isNoneTy {c : Ty} (h : isNoneTy c = true) : c = .scalar "none" := by
  unfold isNoneTy at h
  split at h
  · rfl
  · cases h

/-- the union loader incl. the `Optional` shortcut (`data is None → None`, else the other
    case's loader): it agrees with the general rule when the `None` case accepts exactly `None`
    and the other case, if listed first, does not turn `None` into something else -/
theorem spec_loadUnion_agrees {strict : Bool} {cs : List Ty} {ld : Ty → Val → Outcome Val}
    {sp : Ty → Option Val} {d : Val} (h : ∀ c ∈ cs, Agrees (ld c d) (sp c))
    (hnone : ∀ c ∈ cs, isNoneTy c = true → if d.isNone then sp c = some .none else sp c = none)
    (hopt : ∀ a b, cs = [a, b] → isNoneTy a = false → isNoneTy b = true → d.isNone = true →
        ∀ v, sp a = some v → v = .none) :
    Agrees (loadUnion ⟨.disable, strict⟩ cs ld d) (firstSome sp cs) := by
  unfold loadUnion
  split
  · rename_i a b
    split
    · rename_i hab
      by_cases hd : d.isNone = true
      · -- `None` is answered without asking the cases
        rw [if_pos hd]
        have hN := fun c hc hn => by have := hnone c hc hn; rw [if_pos hd] at this; exact this
        cases ha : isNoneTy a with
        | true =>
          have := hN a (by simp) ha
          simp only [firstSome, this]; exact spec_agrees_of_ok _
        | false =>
          have hb : isNoneTy b = true := by simpa [ha] using hab
          have hbN := hN b (by simp) hb
          cases hsa : sp a with
          | none => simp only [firstSome, hsa, hbN]; exact spec_agrees_of_ok _
          | some v =>
            have := hopt a b rfl ha hb hd v hsa
            subst this
            simp only [firstSome, hsa]; exact spec_agrees_of_ok _
      · rw [if_neg hd]
        have hN := fun c hc hn => by have := hnone c hc hn; rw [if_neg hd] at this; exact this
        simp only
        cases ha : isNoneTy a with
        | true =>
          have haN := hN a (by simp) ha
          simp only [if_true, firstSome, haN]
          have := h b (by simp)
          cases hsb : sp b with
          | none => rw [hsb] at this; exact this
          | some v => rw [hsb] at this; exact this
        | false =>
          have hb : isNoneTy b = true := by simpa [ha] using hab
          have hbN := hN b (by simp) hb
          simp only [Bool.false_eq_true, if_false, firstSome, hbN]
          have := h a (by simp)
          cases hsa : sp a with
          | none => rw [hsa] at this; exact this
          | some v => rw [hsa] at this; exact this
    · exact spec_loadUnion_general_agrees h
  · exact spec_loadUnion_general_agrees h

/-! ### the master lemma -/

theorem spec_specLoad_none_scalar {W : World} {strict : Bool} (hN : NoneExact W strict) (n : Nat) (d : Val) :
    if d.isNone then specLoad W strict (n + 1) (.scalar "none") d = some .none
    else specLoad W strict (n + 1) (.scalar "none") d = none := by
  by_cases hd : d.isNone = true
  · rw [if_pos hd]
    cases d <;> simp [Val.isNone] at hd
    simp only [specLoad, hN.1, okVal]
  · rw [if_neg hd]
    obtain ⟨e, he⟩ := hN.2 d (by simpa using hd)
    simp only [specLoad, he, okVal]

/-- **Agreement.** In mode DISABLE, whenever the loader of a model-free type returns a value
    or raises a LoadError, that is the verdict of the documented rule (`specLoad`). -/
theorem spec_load_agrees (W : World) (strict : Bool) (hN : NoneExact W strict) :
    ∀ (n : Nat) (T : Ty) (d : Val), depth T ≤ n → TyAll (spec_Good W strict) T →
      Agrees (load W ⟨.disable, strict⟩ n T d) (specLoad W strict n T d) := by
  intro n
  induction n with
  | zero => intro T d hd _; have := spec_depth_pos T; omega
  | succ n ih =>
    intro T d hd hg
    cases T with
    | scalar s => simp only [load, specLoad]; exact spec_okVal_agrees _
    | any => simp only [load, specLoad]; exact spec_agrees_of_ok _
    | literal vals =>
      simp only [load, specLoad]
      exact spec_loadLiteral_agrees (spec_tyAll_head hg).1.2 d
    | union cs ks =>
      simp only [load, specLoad]
      simp only [depth, Nat.add_le_add_iff_right, spec_depthL_le] at hd
      have hgs := spec_tyAllL_iff.mp hg.2
      have hopt : OptOK W strict (.union cs ks) := hg.1.2
      refine spec_loadUnion_agrees (sp := fun c => specLoad W strict n c d)
        (fun c hc => ih c d (hd c hc) (hgs c hc)) ?_ ?_
      · intro c hc hn
        have hc' := spec_isNoneTy hn
        subst hc'
        have hpos := hd _ hc
        simp only [depth] at hpos
        obtain ⟨m, rfl⟩ : ∃ m, n = m + 1 := ⟨n - 1, by omega⟩
        exact spec_specLoad_none_scalar hN m d
      · intro a b hcs ha hb hdn v hv
        subst hcs
        cases d <;> simp [Val.isNone] at hdn
        exact hopt (spec_isNoneTy_eq a ▸ ha) (spec_isNoneTy_eq b ▸ hb) n v hv
    | iter f dl e =>
      simp only [load, specLoad]
      simp only [depth, Nat.add_le_add_iff_right] at hd
      exact spec_loadIter_agrees (fun x => ih e x hd hg.2) d
    | tuple ts =>
      simp only [load, specLoad]
      simp only [depth, Nat.add_le_add_iff_right, spec_depthL_le] at hd
      have hgs := spec_tyAllL_iff.mp hg.2
      exact spec_loadTuple_agrees (ld := fun t x => load W ⟨.disable, strict⟩ n t x)
        (sp := fun t x => specLoad W strict n t x) (fun t ht x => ih t x (hd t ht) (hgs t ht)) d
    | dict k v =>
      simp only [load, specLoad]
      simp only [depth, Nat.add_le_add_iff_right, Nat.max_le] at hd
      exact spec_loadDict_agrees (fun x => ih k x hd.1 hg.2.1) (fun x => ih v x hd.2 hg.2.2) d
    | model c => exact absurd (spec_tyAll_head hg).1.1 (by simp [NotModel])

end Adaptix.Morph
