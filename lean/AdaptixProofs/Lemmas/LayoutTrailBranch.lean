/-
  C05 over name layouts — `loadBranch` realises `evts` (every crown, every datum, every mode), and what happens
  at a node whose datum has the wrong kind.
-/
import AdaptixProofs.Lemmas.LayoutTrailRun

namespace Adaptix.Layout.Trail

open Adaptix.Layout

/-! ### a node whose datum has the wrong kind: one `raise` before anything else -/

theorem getItem_s_nonMapping (d : Val) (k : String) (hd : d.isMapping = false) : d.getItem (.s k) = .typeError := by
  cases d <;> simp [Val.isMapping] at hd <;> simp [Val.getItem]

theorem getItem_i_nonSequence (d : Val) (i : Nat) (hd : d.isSequence = false) :
    d.getItem (.i i) = .typeError ∨ d.getItem (.i i) = .keyError := by
  cases d <;> simp [Val.isSequence] at hd <;> simp [Val.getItem]

/-- `raiseBadType` does not depend on the result type of the fragment it sits in -/
theorem raiseBadType_cases {α : Type} (cfg : LoadCfg) (p : Path) (e : LErr) (st : LState) :
    (raiseBadType (α := α) cfg p e st = (st, .fatal [⟨[], e⟩]) ∧ p = [] ∧ cfg.mode = .all) ∨
    (raiseBadType (α := α) cfg p e st = (st, .raised (withTrail cfg.mode p ⟨[], e⟩)) ∧ (p ≠ [] ∨ cfg.mode ≠ .all)) := by
  unfold raiseBadType
  cases p <;> cases hm : cfg.mode <;> simp

/-- the result of a dict node's children loop on a datum that is not a mapping -/
theorem loadDictChildren_badKind (cfg : LoadCfg) (p : Path) (d : Val) (req : List String)
    (hd : d.isMapping = false) :
    ∀ (m : List (String × InpCrown)) (hnf : Bool) (extra : List (String × Val)) (st : LState),
    loadDictChildren cfg p d req m false hnf extra st = (st, .ok (false, extra)) ∨
    loadDictChildren cfg p d req m false hnf extra st = raiseBadType cfg p (.typeLoad "Mapping" d) st
  | [], hnf, extra, st => by unfold loadDictChildren; exact .inl rfl
  | (k, c) :: r, hnf, extra, st => by
    have hk := getItem_s_nonMapping d k hd
    cases c with
    | none =>
      unfold loadDictChildren
      exact loadDictChildren_badKind cfg p d req hd r hnf extra st
    | field id =>
      right
      unfold loadDictChildren fieldFromDict getFromDict
      rcases raiseBadType_cases (α := Option Val × Bool) cfg p (.typeLoad "Mapping" d) st with ⟨h1, _⟩ | ⟨h1, _⟩ <;>
      rcases raiseBadType_cases (α := Bool) cfg p (.typeLoad "Mapping" d) st with ⟨h2, _⟩ | ⟨h2, _⟩ <;>
      rcases raiseBadType_cases (α := Bool × List (String × Val)) cfg p (.typeLoad "Mapping" d) st
        with ⟨h3, _⟩ | ⟨h3, _⟩ <;>
      by_cases hreq : (cfg.field id).required = true <;>
      cases d <;> simp_all [Val.isMapping]
    | dict m' pol' =>
      right
      unfold loadDictChildren getFromDict
      rcases raiseBadType_cases (α := Option Val × Bool) cfg p (.typeLoad "Mapping" d) st with ⟨h1, _⟩ | ⟨h1, _⟩ <;>
      rcases raiseBadType_cases (α := Bool × List (String × Val)) cfg p (.typeLoad "Mapping" d) st
        with ⟨h3, _⟩ | ⟨h3, _⟩ <;>
      simp_all
    | list m' pol' =>
      right
      unfold loadDictChildren getFromDict
      rcases raiseBadType_cases (α := Option Val × Bool) cfg p (.typeLoad "Mapping" d) st with ⟨h1, _⟩ | ⟨h1, _⟩ <;>
      rcases raiseBadType_cases (α := Bool × List (String × Val)) cfg p (.typeLoad "Mapping" d) st
        with ⟨h3, _⟩ | ⟨h3, _⟩ <;>
      simp_all

theorem loadBranch_dict_badKind (cfg : LoadCfg) (p : Path) (d : Val) (m : List (String × InpCrown)) (pol : Policy)
    (st : LState) (hd : d.isMapping = false) :
    loadBranch cfg p d (.dict m pol) st = wrap cfg p (.dict []) (raiseBadType cfg p (.typeLoad "Mapping" d) st) := by
  unfold loadBranch
  rcases loadDictChildren_badKind cfg p d (requiredKeys cfg m) hd m false [] st with h | h
  · rw [h]; simp [hd]
  · rw [h]
    rcases raiseBadType_cases (α := Val) cfg p (.typeLoad "Mapping" d) st with ⟨h1, _⟩ | ⟨h1, _⟩ <;>
    rcases raiseBadType_cases (α := Bool × List (String × Val)) cfg p (.typeLoad "Mapping" d) st
      with ⟨h3, _⟩ | ⟨h3, _⟩ <;> simp_all

theorem loadListChildren_badKind (cfg : LoadCfg) (p : Path) (d : Val) (n : Nat) (hd : d.isSequence = false) :
    ∀ (m : List InpCrown) (i : Nat) (extra : List Val) (st : LState),
    (∃ extra', loadListChildren cfg p d n m i false extra st = (st, .ok (false, extra'))) ∨
    loadListChildren cfg p d n m i false extra st = raiseBadType cfg p (.typeLoad "Sequence" d) st
  | [], i, extra, st => by unfold loadListChildren; exact .inl ⟨_, rfl⟩
  | c :: r, i, extra, st => by
    have hk := getItem_i_nonSequence d i hd
    cases c with
    | none =>
      unfold loadListChildren
      exact loadListChildren_badKind cfg p d n hd r (i + 1) _ st
    | field id =>
      right
      unfold loadListChildren fieldFromList getFromList
      rcases raiseBadType_cases (α := Option Val) cfg p (.typeLoad "Sequence" d) st with ⟨h1, _⟩ | ⟨h1, _⟩ <;>
      rcases raiseBadType_cases (α := Bool × List Val) cfg p (.typeLoad "Sequence" d) st
        with ⟨h3, _⟩ | ⟨h3, _⟩ <;>
      rcases hk with hk | hk <;> simp_all
    | dict m' pol' =>
      right
      unfold loadListChildren getFromList
      rcases raiseBadType_cases (α := Option Val) cfg p (.typeLoad "Sequence" d) st with ⟨h1, _⟩ | ⟨h1, _⟩ <;>
      rcases raiseBadType_cases (α := Bool × List Val) cfg p (.typeLoad "Sequence" d) st
        with ⟨h3, _⟩ | ⟨h3, _⟩ <;>
      rcases hk with hk | hk <;> simp_all
    | list m' pol' =>
      right
      unfold loadListChildren getFromList
      rcases raiseBadType_cases (α := Option Val) cfg p (.typeLoad "Sequence" d) st with ⟨h1, _⟩ | ⟨h1, _⟩ <;>
      rcases raiseBadType_cases (α := Bool × List Val) cfg p (.typeLoad "Sequence" d) st
        with ⟨h3, _⟩ | ⟨h3, _⟩ <;>
      rcases hk with hk | hk <;> simp_all

theorem loadBranch_list_eq (cfg : LoadCfg) (p : Path) (d : Val) (m : List InpCrown) (pol : Policy) (st : LState) :
    loadBranch cfg p d (.list m pol) st =
      wrap cfg p (.list (listExtraLiteral m))
        (if cfg.strict && d.isStr then raiseBadType cfg p (.excludedType d) st
         else listTail cfg p pol m.length d (loadListChildren cfg p d m.length m 0 false [] st)) := by
  unfold loadBranch listTail
  rfl

theorem loadBranch_list_badKind (cfg : LoadCfg) (p : Path) (d : Val) (m : List InpCrown) (pol : Policy)
    (st : LState) (hd : goodKind cfg (.list m pol) d = false) :
    loadBranch cfg p d (.list m pol) st =
      wrap cfg p (.list (listExtraLiteral m)) (raiseBadType cfg p (kindErr cfg (.list m pol) d) st) := by
  rw [loadBranch_list_eq]
  unfold kindErr
  by_cases hstr : (cfg.strict && d.isStr) = true
  · simp [hstr]
  · have hseq : d.isSequence = false := by
      simp only [goodKind] at hd
      cases hs : d.isSequence <;> simp_all
    simp only [hstr, Bool.false_eq_true, if_false]
    congr 1
    unfold listTail
    rcases loadListChildren_badKind cfg p d m.length hseq m 0 [] st with ⟨ex, h⟩ | h
    · rw [h]; simp [hseq]
    · rw [h]
      rcases raiseBadType_cases (α := Val) cfg p (.typeLoad "Sequence" d) st with ⟨h1, _⟩ | ⟨h1, _⟩ <;>
      rcases raiseBadType_cases (α := Bool × List Val) cfg p (.typeLoad "Sequence" d) st
        with ⟨h3, _⟩ | ⟨h3, _⟩ <;> simp_all

/-! ### `wrap` -/

theorem wrap_realises (cfg : LoadCfg) (p : Path) (dflt : Val) (st : LState) (E : List Fault) (r : LState × Res Val)
    (h : Realises cfg st E r) : Realises cfg st E (wrap cfg p dflt r) := by
  unfold wrap
  by_cases hm : cfg.mode = .all
  · have h' := h
    unfold Realises at h'
    simp only [hm, if_true] at h'
    obtain ⟨st', a, rfl, _⟩ := h'
    split <;> exact h
  · have : (cfg.mode == .all && !p.isEmpty) = false := by
      cases hc : cfg.mode <;> simp_all
    simp only [this, Bool.false_eq_true, if_false]
    exact h

theorem wrap_raiseBadType_realises (cfg : LoadCfg) (p : Path) (dflt : Val) (e : LErr) (st : LState)
    (h : p ≠ [] ∨ cfg.mode ≠ .all) :
    Realises cfg st [.node p e] (wrap cfg p dflt (raiseBadType cfg p e st)) := by
  rcases raiseBadType_cases (α := Val) cfg p e st with ⟨_, hp, hm⟩ | ⟨h1, _⟩
  · rcases h with h | h <;> contradiction
  · rw [h1]
    unfold wrap Realises
    by_cases hm : cfg.mode = .all
    · have hp : p ≠ [] := by
        rcases h with h | h
        · exact h
        · contradiction
      have : p.isEmpty = false := by cases p <;> simp_all
      simp [hm, this, withTrail, Fault.abs]
    · have : (cfg.mode == .all && !p.isEmpty) = false := by
        cases hc : cfg.mode <;> simp_all
      simp only [this, hm, Bool.false_eq_true, if_false]
      exact ⟨st, by rw [report_node]⟩

theorem wrap_raiseBadType_root (cfg : LoadCfg) (dflt : Val) (e : LErr) (st : LState) (hm : cfg.mode = .all) :
    wrap cfg [] dflt (raiseBadType cfg [] e st) = (st, .fatal [⟨[], e⟩]) := by
  simp [wrap, raiseBadType, hm]


/-! ### every node -/

theorem mem_dict_sizeOf {k : String} {c : InpCrown} {m : List (String × InpCrown)} {pol : Policy}
    (h : (k, c) ∈ m) : sizeOf c < sizeOf (InpCrown.dict m pol) := by
  have := List.sizeOf_lt_of_mem h
  simp at this ⊢
  omega

theorem mem_list_sizeOf {c : InpCrown} {m : List InpCrown} {pol : Policy}
    (h : c ∈ m) : sizeOf c < sizeOf (InpCrown.list m pol) := by
  have := List.sizeOf_lt_of_mem h
  simp
  omega

/-- **the generated code of a node meets exactly the faults `evts` lists, in this order** — for every crown,
    crown path, datum, state and debug mode (the root node of ALL mode on a datum of the wrong kind raises
    `AggregateLoadError` directly and is treated in `loadBranch_root_badKind`) -/
theorem loadBranch_realises (cfg : LoadCfg) : ∀ (c : InpCrown) (p : Path) (d : Val) (st : LState),
    isBranch c = true → (goodKind cfg c d = true ∨ p ≠ [] ∨ cfg.mode ≠ .all) →
    Realises cfg st (evts cfg c p d) (loadBranch cfg p d c st)
  | .dict m pol, p, d, st, _, hk => by
    by_cases hd : d.isMapping = true
    · obtain ⟨kvs, rfl⟩ : ∃ kvs, d = .dict kvs := by
        cases d <;> simp [Val.isMapping] at hd
        exact ⟨_, rfl⟩
      unfold loadBranch
      apply wrap_realises
      have h1 := loadDictChildren_realises cfg p kvs (requiredKeys cfg m) m
        (fun k c hmem hc v st' => loadBranch_realises cfg c (p ++ [.s k]) v st' hc (.inr (.inl (by simp))))
        false false [] st (fun _ => rfl)
      generalize loadDictChildren cfg p (.dict kvs) (requiredKeys cfg m) m false false [] st = x at h1 ⊢
      apply Realises.bind' (r1 := x) (extraFault p pol m (.dict kvs)) _ h1
      · simp [evts, Val.isMapping, nrfOf]
      · exact fun _ _ => rfl
      · intro st1 a _ _
        obtain ⟨checked, extra⟩ := a
        simp only [Val.isMapping, Bool.not_true, Bool.and_false, Bool.false_eq_true, if_false]
        exact dictPolicy_realises cfg p pol m (.dict kvs) extra st1
    · have hd' : d.isMapping = false := by simpa using hd
      rw [loadBranch_dict_badKind _ _ _ _ _ _ hd']
      have : evts cfg (.dict m pol) p d = [.node p (.typeLoad "Mapping" d)] := by simp [evts, hd']
      rw [this]
      apply wrap_raiseBadType_realises
      rcases hk with hk | hk
      · simp [goodKind, hd'] at hk
      · exact hk
  | .list m pol, p, d, st, _, hk => by
    by_cases hd : goodKind cfg (.list m pol) d = true
    · have hs : d.isSequence = true := by simp [goodKind] at hd; exact hd.1
      have hstr : (cfg.strict && d.isStr) = false := by
        simp only [goodKind] at hd
        cases h : (cfg.strict && d.isStr) <;> simp_all
      rw [loadBranch_list_eq]
      apply wrap_realises
      simp only [hstr, Bool.false_eq_true, if_false]
      have := loadListChildren_realises cfg p d pol m.length hs m 0
        (fun c hmem hc j v st' => loadBranch_realises cfg c (p ++ [.i j]) v st' hc (.inr (.inl (by simp))))
        (by simp) false [] st
      simpa [evts, hstr, hs] using this
    · have hd' : goodKind cfg (.list m pol) d = false := by simpa using hd
      rw [loadBranch_list_badKind _ _ _ _ _ _ hd']
      have : evts cfg (.list m pol) p d = [.node p (kindErr cfg (.list m pol) d)] := by
        simp only [evts, kindErr]
        by_cases hstr : (cfg.strict && d.isStr) = true
        · simp [hstr]
        · have hseq : d.isSequence = false := by
            simp only [goodKind] at hd'
            cases hs : d.isSequence <;> simp_all
          simp [hstr, hseq]
      rw [this]
      apply wrap_raiseBadType_realises
      rcases hk with hk | hk
      · simp [hd'] at hk
      · exact hk
  | .field _, _, _, _, hb, _ => by simp [isBranch] at hb
  | .none, _, _, _, hb, _ => by simp [isBranch] at hb
termination_by c => sizeOf c
decreasing_by
  · exact mem_dict_sizeOf hmem
  · exact mem_list_sizeOf hmem

/-- the root node of ALL mode on a datum of the wrong kind: `raise AggregateLoadError(..., [e])` at once -/
theorem loadBranch_root_badKind (cfg : LoadCfg) (c : InpCrown) (d : Val) (st : LState) (hb : isBranch c = true)
    (hm : cfg.mode = .all) (hk : goodKind cfg c d = false) :
    loadBranch cfg [] d c st = (st, .fatal [⟨[], kindErr cfg c d⟩]) ∧
      evts cfg c [] d = [.node [] (kindErr cfg c d)] := by
  cases c with
  | dict m pol =>
    have hd' : d.isMapping = false := by simpa [goodKind] using hk
    rw [loadBranch_dict_badKind _ _ _ _ _ _ hd', wrap_raiseBadType_root _ _ _ _ hm]
    simp [evts, hd', kindErr]
  | list m pol =>
    rw [loadBranch_list_badKind _ _ _ _ _ _ hk, wrap_raiseBadType_root _ _ _ _ hm]
    refine ⟨rfl, ?_⟩
    simp only [evts, kindErr]
    by_cases hstr : (cfg.strict && d.isStr) = true
    · simp [hstr]
    · have hseq : d.isSequence = false := by
        simp only [goodKind] at hk
        cases hs : d.isSequence <;> simp_all
      simp [hstr, hseq]
  | field _ => simp [isBranch] at hb
  | none => simp [isBranch] at hb

end Adaptix.Layout.Trail
