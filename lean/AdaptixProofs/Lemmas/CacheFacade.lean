/-
  Helper lemmas for C11: the facade caches (`_loader_cache`, `_dumper_cache`,
  `_simple_converter_cache`) only ever hold what a never-used retort would
  produce; every facade call therefore answers like a fresh retort.
-/
import AdaptixModel.Retort.CacheSem
import AdaptixProofs.Lemmas.CacheInv

namespace Adaptix.Cache

/-- what a never-used retort with configuration `cfg` produces for `h`, in a
    process that has never normalised anything -/
def freshTop (P : Params) (U : Univ) (cfg : Cfg) (dir : Dir) (h : Hint) : Option Clo :=
  (topProvide P U cfg dir h [] []).1

/-- **the cache invariant of one retort**: every entry of every cache maps its
    key to what a fresh retort produces for that key -/
structure RetInv (P : Params) (U : Univ) (r : Retort) : Prop where
  call : CallInv r.call
  loaders : ∀ e ∈ r.loaderCache, some e.2 = freshTop P U r.cfg .load e.1
  dumpers : ∀ e ∈ r.dumperCache, some e.2 = freshTop P U r.cfg .dump e.1
  convs : ∀ e ∈ r.convCache, some e.2 = convProduce P U e.1.1 e.1.2

theorem retInv_fresh (P : Params) (U : Univ) (cfg : Cfg) : RetInv P U (Retort.fresh cfg) :=
  ⟨callInv_nil, by simp [Retort.fresh], by simp [Retort.fresh], by simp [Retort.fresh]⟩

theorem topProvide_indep (P : Params) (hM : P.mode = Mode.fixed) (U : Univ) (cfg : Cfg) (dir : Dir)
    (h h' : Hint) (he : h.eqRep = h'.eqRep) (call : List (Key × Clo)) (hc : CallInv call) (N : List Hint) :
    (topProvide P U cfg dir h call N).1 = freshTop P U cfg dir h' ∧
      CallInv (topProvide P U cfg dir h call N).2.call := by
  unfold freshTop topProvide
  rw [hM, he]
  have := provide_ok U P.cap cfg dir P.fuel [Loc.th h'.eqRep] h h'
    { loc := ⟨[], 0⟩, call := call, norm := N } { loc := ⟨[], 0⟩, call := [], norm := [] } he
    ⟨rfl, hc, callInv_nil⟩
  exact ⟨this.1, this.2.inv⟩

theorem convProduce_congr (P : Params) (hM : P.mode = Mode.fixed) (U : Univ) (s s' d d' : Hint)
    (hs : s.eqRep = s'.eqRep) (hd : d.eqRep = d'.eqRep) : convProduce P U s d = convProduce P U s' d' := by
  unfold convProduce
  rw [hM, canon_congr U s s' hs, canon_congr U d d' hd]

theorem getMorph_spec (P : Params) (hM : P.mode = Mode.fixed) (U : Univ) (dir : Dir) (h : Hint) (r : Retort)
    (N : List Hint) (hr : RetInv P U r) :
    (getMorph P U dir h r N).1 = freshTop P U r.cfg dir h ∧ RetInv P U (getMorph P U dir h r N).2.1 ∧
      (getMorph P U dir h r N).2.1.cfg = r.cfg := by
  unfold getMorph
  cases dir with
  | load =>
    simp only
    cases hf : r.loaderCache.find? (fun e => Hint.pyEq e.1 h) with
    | some e =>
      have hmem := List.mem_of_find?_eq_some hf
      have hk : e.1.eqRep = h.eqRep := by simpa [Hint.pyEq] using List.find?_some hf
      refine ⟨?_, hr, rfl⟩
      simp only
      rw [hr.loaders e hmem]
      exact (topProvide_indep P hM U r.cfg .load e.1 h hk [] callInv_nil []).1
    | none =>
      have t := topProvide_indep P hM U r.cfg .load h h rfl r.call hr.call N
      simp only
      cases hres : (topProvide P U r.cfg Dir.load h r.call N).1 with
      | none =>
        refine ⟨by rw [← t.1, hres], ⟨t.2, hr.loaders, hr.dumpers, hr.convs⟩, rfl⟩
      | some c =>
        refine ⟨by rw [← t.1, hres], ⟨t.2, ?_, hr.dumpers, hr.convs⟩, rfl⟩
        intro e he
        rcases List.mem_append.mp he with h1 | h1
        · exact hr.loaders e h1
        · simp at h1; subst h1
          simp only
          rw [← hres]; exact t.1
  | dump =>
    simp only
    cases hf : r.dumperCache.find? (fun e => Hint.pyEq e.1 h) with
    | some e =>
      have hmem := List.mem_of_find?_eq_some hf
      have hk : e.1.eqRep = h.eqRep := by simpa [Hint.pyEq] using List.find?_some hf
      refine ⟨?_, hr, rfl⟩
      simp only
      rw [hr.dumpers e hmem]
      exact (topProvide_indep P hM U r.cfg .dump e.1 h hk [] callInv_nil []).1
    | none =>
      have t := topProvide_indep P hM U r.cfg .dump h h rfl r.call hr.call N
      simp only
      cases hres : (topProvide P U r.cfg Dir.dump h r.call N).1 with
      | none =>
        refine ⟨by rw [← t.1, hres], ⟨t.2, hr.loaders, hr.dumpers, hr.convs⟩, rfl⟩
      | some c =>
        refine ⟨by rw [← t.1, hres], ⟨t.2, hr.loaders, ?_, hr.convs⟩, rfl⟩
        intro e he
        rcases List.mem_append.mp he with h1 | h1
        · exact hr.dumpers e h1
        · simp at h1; subst h1
          simp only
          rw [← hres]; exact t.1

theorem getConv_spec (P : Params) (hM : P.mode = Mode.fixed) (U : Univ) (s d : Hint) (r : Retort)
    (N : List Hint) (hr : RetInv P U r) :
    (getConv P U s d r N).1 = convProduce P U s d ∧ RetInv P U (getConv P U s d r N).2.1 ∧
      (getConv P U s d r N).2.1.cfg = r.cfg := by
  unfold getConv
  cases hf : r.convCache.find? (fun e => Hint.pyEq e.1.1 s && Hint.pyEq e.1.2 d) with
  | some e =>
    have hmem := List.mem_of_find?_eq_some hf
    have hk := List.find?_some hf
    simp [Hint.pyEq] at hk
    refine ⟨?_, hr, rfl⟩
    simp only
    rw [hr.convs e hmem]
    exact convProduce_congr P hM U _ _ _ _ hk.1 hk.2
  | none =>
    simp only
    cases hres : convProduce P U s d with
    | none => exact ⟨rfl, hr, rfl⟩
    | some c =>
      refine ⟨rfl, ⟨hr.call, hr.loaders, hr.dumpers, ?_⟩, rfl⟩
      intro e he
      rcases List.mem_append.mp he with h1 | h1
      · exact hr.convs e h1
      · simp at h1; subst h1
        simp only
        rw [hres]

theorem applyTo_fst (P : Params) (U : Univ) (v : Option Val) (a b : Option Clo × Retort × List Hint)
    (h : a.1 = b.1) : (applyTo P U v a).1 = (applyTo P U v b).1 := by
  unfold applyTo
  rw [h]
  cases b.1 with
  | none => rfl
  | some c => cases v <;> rfl

theorem applyTo_snd (P : Params) (U : Univ) (v : Option Val) (a : Option Clo × Retort × List Hint) :
    (applyTo P U v a).2 = a.2 := by
  unfold applyTo
  cases a.1 with
  | none => rfl
  | some c => cases v <;> rfl

/-- **one facade call answers like a fresh retort and keeps the invariant** -/
theorem stepF_spec (P : Params) (hM : P.mode = Mode.fixed) (U : Univ) (f : FOp) (r : Retort) (N : List Hint)
    (hr : RetInv P U r) :
    (stepF P U f r N).1 = (stepF P U f (Retort.fresh r.cfg) []).1 ∧ RetInv P U (stepF P U f r N).2.1 ∧
      (stepF P U f r N).2.1.cfg = r.cfg := by
  have hfresh := retInv_fresh P U r.cfg
  cases f with
  | getLoader h =>
    have a := getMorph_spec P hM U .load h r N hr
    have b := getMorph_spec P hM U .load h (Retort.fresh r.cfg) [] hfresh
    simp only [stepF, applyTo_snd]
    exact ⟨applyTo_fst P U _ _ _ (by rw [a.1, b.1]; rfl), a.2.1, a.2.2⟩
  | load h v =>
    have a := getMorph_spec P hM U .load h r N hr
    have b := getMorph_spec P hM U .load h (Retort.fresh r.cfg) [] hfresh
    simp only [stepF, applyTo_snd]
    exact ⟨applyTo_fst P U _ _ _ (by rw [a.1, b.1]; rfl), a.2.1, a.2.2⟩
  | getDumper h =>
    have a := getMorph_spec P hM U .dump h r N hr
    have b := getMorph_spec P hM U .dump h (Retort.fresh r.cfg) [] hfresh
    simp only [stepF, applyTo_snd]
    exact ⟨applyTo_fst P U _ _ _ (by rw [a.1, b.1]; rfl), a.2.1, a.2.2⟩
  | dump h v =>
    have a := getMorph_spec P hM U .dump h r N hr
    have b := getMorph_spec P hM U .dump h (Retort.fresh r.cfg) [] hfresh
    simp only [stepF, applyTo_snd]
    exact ⟨applyTo_fst P U _ _ _ (by rw [a.1, b.1]; rfl), a.2.1, a.2.2⟩
  | getConverter s d =>
    have a := getConv_spec P hM U s d r N hr
    have b := getConv_spec P hM U s d (Retort.fresh r.cfg) [] hfresh
    simp only [stepF, applyTo_snd]
    exact ⟨applyTo_fst P U _ _ _ (by rw [a.1, b.1]), a.2.1, a.2.2⟩
  | convert s d v =>
    have a := getConv_spec P hM U s d r N hr
    have b := getConv_spec P hM U s d (Retort.fresh r.cfg) [] hfresh
    simp only [stepF, applyTo_snd]
    exact ⟨applyTo_fst P U _ _ _ (by rw [a.1, b.1]), a.2.1, a.2.2⟩

/-! ### the process -/

/-- every retort of the process satisfies the cache invariant -/
def SysInv (P : Params) (U : Univ) (w : Sys) : Prop := ∀ r ∈ w.retorts, RetInv P U r

theorem stepOp_inv (P : Params) (hM : P.mode = Mode.fixed) (U : Univ) (op : Op) (w : Sys) (hw : SysInv P U w) :
    SysInv P U (stepOp P U op w) := by
  unfold stepOp
  cases op with
  | call i f =>
    simp only
    cases hi : w.retorts[i]? with
    | none => exact hw
    | some r =>
      have hr : RetInv P U r := hw r (List.mem_of_getElem? hi)
      intro x hx
      simp only at hx
      rcases List.mem_or_eq_of_mem_set hx with h | h
      · exact hw x h
      · rw [h]; exact (stepF_spec P hM U f r w.norm hr).2.1
  | replace i strict =>
    simp only
    cases hi : w.retorts[i]? with
    | none => exact hw
    | some r =>
      intro x hx
      simp only at hx
      rcases List.mem_append.mp hx with h | h
      · exact hw x h
      · simp at h; rw [h]; exact retInv_fresh P U _
  | extend i recipe =>
    simp only
    cases hi : w.retorts[i]? with
    | none => exact hw
    | some r =>
      intro x hx
      simp only at hx
      rcases List.mem_append.mp hx with h | h
      · exact hw x h
      · simp at h; rw [h]; exact retInv_fresh P U _

theorem runHist_inv (P : Params) (hM : P.mode = Mode.fixed) (U : Univ) :
    ∀ (hist : List Op) (w : Sys), SysInv P U w → SysInv P U (runHist P U hist w)
  | [], _, hw => hw
  | op :: rest, w, hw => runHist_inv P hM U rest _ (stepOp_inv P hM U op w hw)

/-- configurations are immutable and retorts are never removed -/
theorem stepOp_cfg (P : Params) (hM : P.mode = Mode.fixed) (U : Univ) (op : Op) (w : Sys) (hw : SysInv P U w)
    (i : Nat) (r : Retort) (hi : w.retorts[i]? = some r) :
    ∃ r', (stepOp P U op w).retorts[i]? = some r' ∧ r'.cfg = r.cfg := by
  have hlt : i < w.retorts.length := (List.getElem?_eq_some_iff.mp hi).1
  unfold stepOp
  cases op with
  | call j f =>
    simp only
    cases hj : w.retorts[j]? with
    | none => exact ⟨r, hi, rfl⟩
    | some rj =>
      simp only
      by_cases hij : j = i
      · subst hij
        rw [hi] at hj; cases hj
        refine ⟨(stepF P U f r w.norm).2.1, by simp [hlt], ?_⟩
        exact (stepF_spec P hM U f r w.norm (hw r (List.mem_of_getElem? hi))).2.2
      · exact ⟨r, by simp [List.getElem?_set_ne hij, hi], rfl⟩
  | replace j strict =>
    simp only
    cases hj : w.retorts[j]? with
    | none => exact ⟨r, hi, rfl⟩
    | some rj => exact ⟨r, by simp [List.getElem?_append_left hlt, hi], rfl⟩
  | extend j recipe =>
    simp only
    cases hj : w.retorts[j]? with
    | none => exact ⟨r, hi, rfl⟩
    | some rj => exact ⟨r, by simp [List.getElem?_append_left hlt, hi], rfl⟩

theorem runHist_cfg (P : Params) (hM : P.mode = Mode.fixed) (U : Univ) :
    ∀ (hist : List Op) (w : Sys), SysInv P U w → ∀ (i : Nat) (r : Retort), w.retorts[i]? = some r →
      ∃ r', (runHist P U hist w).retorts[i]? = some r' ∧ r'.cfg = r.cfg
  | [], _, _, _, r, hi => ⟨r, hi, rfl⟩
  | op :: rest, w, hw, i, r, hi => by
    obtain ⟨r1, h1, c1⟩ := stepOp_cfg P hM U op w hw i r hi
    obtain ⟨r2, h2, c2⟩ := runHist_cfg P hM U rest _ (stepOp_inv P hM U op w hw) i r1 h1
    exact ⟨r2, h2, by rw [c2, c1]⟩

end Adaptix.Cache
