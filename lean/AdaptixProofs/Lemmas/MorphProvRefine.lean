/-
  C20 helper lemmas, part 2: provider by provider, `erase ∘ loadP = load` and
  `erase ∘ dumpP = dump`.
-/
import AdaptixProofs.Lemmas.MorphProvErase

namespace Adaptix.Morph
open Adaptix.Py

/-! ### load -/

theorem loadIterP_erase (cfg : Cfg) (f : Factory) (elemP : Val → Outcome PVal) (elem : Val → Outcome Val)
    (h : ∀ x, (elemP x).map PVal.erase = elem x) (d : Val) :
    (loadIterP cfg f elemP d).map PVal.erase = loadIter cfg f elem d := by
  unfold loadIterP loadIter
  split
  · rfl
  · cases hx : d.iterElems with
    | none => rfl
    | some xs =>
      simp only []
      apply bindO_erase
      · rw [seqModeG_map, mapItems_idxItemsG, List.map_map]
        congr 2
        apply List.map_congr_left
        intro x _
        exact h x
      · exact buildP_erase f

theorem loadTupleP_erase (cfg : Cfg) (loadersP : List (Val → Outcome PVal)) (d : Val) :
    (loadTupleP cfg loadersP d).map PVal.erase
      = loadTuple cfg (loadersP.map fun l x => (l x).map PVal.erase) d := by
  unfold loadTupleP loadTuple
  split
  · rfl
  · cases hx : d.iterElems with
    | none => rfl
    | some xs =>
      simp only [List.length_map]
      split
      · rfl
      · split
        · rfl
        · apply bindO_erase
          · rw [seqModeG_map, mapItems_idxItemsG, zipApplyG_map]
          · intro ys; simp [Shape.build]

theorem loadDictP_erase (cfg : Cfg) (keyP valueP : Val → Outcome PVal) (key value : Val → Outcome Val)
    (hk : ∀ x, (keyP x).map PVal.erase = key x) (hv : ∀ x, (valueP x).map PVal.erase = value x) (d : Val) :
    (loadDictP cfg keyP valueP d).map PVal.erase = loadDict cfg key value d := by
  have hk' : (fun x => (keyP x).map PVal.erase) = key := funext hk
  have hv' : (fun x => (valueP x).map PVal.erase) = value := funext hv
  cases d with
  | dict kvs =>
    simp only [loadDictP, loadDict]
    apply bindO_erase
    · rw [seqModeG_map, mapItems_dictItemsG, hk', hv']
    · intro ys
      simpa using buildDictP_erase _ ys []
  | _ => rfl

theorem unionFirstOkG_map {α : Type} (f : α → Val) (os : List (Outcome α)) (errs : List LErr) :
    unionFirstOk (os.map (Outcome.map f)) errs
      = ((unionFirstOkG os errs).1.map f, (unionFirstOkG os errs).2) := by
  induction os generalizing errs with
  | nil => rfl
  | cons o rest ih =>
    cases o <;> simp [unionFirstOk, unionFirstOkG, Outcome.map, ih]

theorem unionAllG_map {α : Type} (f : α → Val) (os : List (Outcome α)) (errs : List LErr) (u : Bool) :
    (unionAllG os errs u).map f = unionAll (os.map (Outcome.map f)) errs u := by
  induction os generalizing errs u with
  | nil => simp only [unionAllG, unionAll, List.map_nil]; split <;> rfl
  | cons o rest ih =>
    cases o with
    | ok v =>
      simp only [unionAllG, unionAll, List.map_cons, Outcome.map_ok]
      split
      · exact ih _ _
      · rfl
    | err e => simpa [unionAllG, unionAll] using ih _ _
    | escape e => simpa [unionAllG, unionAll] using ih _ _
    | diverge => rfl

theorem loadUnionG_general_erase {α : Type} (f : α → Val) (cfg : Cfg) (cases : List Ty)
    (ldP : Ty → Val → Outcome α) (ld : Ty → Val → Outcome Val)
    (h : ∀ c x, (ldP c x).map f = ld c x) (d : Val) :
    (loadUnionG.general cfg cases ldP d).map f = loadUnion.general cfg cases ld d := by
  unfold loadUnionG.general loadUnion.general
  have hos : cases.map (fun c => ld c d) = (cases.map (fun c => ldP c d)).map (Outcome.map f) := by
    rw [List.map_map]; apply List.map_congr_left; intro c _; exact (h c d).symm
  simp only [hos]
  cases cfg.trail with
  | disable =>
    simp only [unionFirstOkG_map]
    cases unionFirstOkG (cases.map fun c => ldP c d) [] with
    | mk o errs => cases o <;> rfl
  | first =>
    simp only [unionFirstOkG_map]
    cases unionFirstOkG (cases.map fun c => ldP c d) [] with
    | mk o errs => cases o <;> rfl
  | all => exact unionAllG_map f _ _ _

theorem loadUnionG_erase {α : Type} (f : α → Val) (noneV : α) (hn : f noneV = .none) (cfg : Cfg)
    (cases : List Ty) (ldP : Ty → Val → Outcome α) (ld : Ty → Val → Outcome Val)
    (h : ∀ c x, (ldP c x).map f = ld c x) (d : Val) :
    (loadUnionG noneV cfg cases ldP d).map f = loadUnion cfg cases ld d := by
  have hg := loadUnionG_general_erase f cfg cases ldP ld h d
  rcases cases with _ | ⟨a, _ | ⟨b, _ | ⟨c, rest⟩⟩⟩
  · simpa only [loadUnionG, loadUnion] using hg
  · simpa only [loadUnionG, loadUnion] using hg
  · simp only [loadUnionG, loadUnion]
    split
    · split
      · simp [hn]
      · rw [← h]
        cases cfg.trail <;> cases ldP (if isNoneTy a = true then b else a) d <;> rfl
    · exact hg
  · simpa only [loadUnionG, loadUnion] using hg

theorem modelItemsG_map {α : Type} (f : α → Val) (dflt : Field → α) (hd : ∀ fld, f (dflt fld) = fld.default)
    (flP : Field → Val → Outcome α) (kvs : List (Val × Val)) (missing : List String)
    (fields : List Field) (rep : Bool) :
    mapItems f (modelItemsG dflt flP kvs missing fields rep)
      = modelItems (fun fld v => (flP fld v).map f) kvs missing fields rep := by
  induction fields generalizing rep with
  | nil => rfl
  | cons fld rest ih =>
    simp only [modelItemsG, modelItems]
    cases Val.lookup (.str fld.name) kvs with
    | some v => simp [ih]
    | none =>
      simp only []
      split
      · split
        · exact ih _
        · simp [ih]
      · simp [ih, hd]

theorem loadModelP_erase (cfg : Cfg) (dp : String → String → Prov) (cls : String) (fields : List Field)
    (flP : Field → Val → Outcome PVal) (fl : Field → Val → Outcome Val)
    (h : ∀ fld x, (flP fld x).map PVal.erase = fl fld x) (d : Val) :
    (loadModelP cfg dp cls fields flP d).map PVal.erase = loadModel cfg cls fields fl d := by
  have h' : (fun fld v => (flP fld v).map PVal.erase) = fl := by funext fld v; exact h fld v
  cases d with
  | dict kvs =>
    simp only [loadModelP, loadModel]
    apply bindO_erase
    · rw [seqModeG_map, modelItemsG_map _ _ (fun fld => PVal.erase_ofVal _ _), h']
    · intro ys; simp [Shape.build]
  | _ => cases cfg with | mk t st => cases t <;> rfl

theorem loadP_erase (W : World) (cfg : Cfg) (dp : String → String → Prov) :
    ∀ (n : Nat) (T : Ty) (d : Val), (loadP W cfg dp n T d).map PVal.erase = load W cfg n T d
  | 0, _, _ => rfl
  | n + 1, T, d => by
    have ih := loadP_erase W cfg dp n
    cases T with
    | scalar s =>
      simp only [loadP, load]
      cases W.scalarLoad cfg.strict s d <;> simp [Outcome.map, erase_scalarP]
    | any => simp [loadP, load, PVal.erase_ofVal]
    | literal vals =>
      simp only [loadP, load]
      cases loadLiteral cfg.strict vals d <;> simp [Outcome.map, PVal.erase_ofVal]
    | union cases keys =>
      simp only [loadP, load]
      exact loadUnionG_erase PVal.erase _ (PVal.erase_ofVal _ _) cfg cases _ _ (fun c x => ih c x) d
    | iter f dl elem =>
      simp only [loadP, load]
      exact loadIterP_erase cfg f _ _ (ih elem) d
    | tuple elems =>
      simp only [loadP, load]
      rw [loadTupleP_erase, List.map_map]
      congr 1
      apply List.map_congr_left
      intro t _
      funext x
      exact ih t x
    | dict k v =>
      simp only [loadP, load]
      exact loadDictP_erase cfg _ _ _ _ (ih k) (ih v) d
    | model cls =>
      simp only [loadP, load]
      cases W.classes cls with
      | none => rfl
      | some fields => exact loadModelP_erase cfg dp cls fields _ _ (fun fld x => ih fld.ty x) d

/-! ### dump -/

theorem dumpIterP_erase (cfg : Cfg) (asList : Bool) (elemP : Val → Outcome PVal) (elem : Val → Outcome Val)
    (h : ∀ x, (elemP x).map PVal.erase = elem x) (x : Val) :
    (dumpIterP cfg asList elemP x).map PVal.erase = dumpIter cfg asList elem x := by
  unfold dumpIterP dumpIter
  cases hx : x.iterElems with
  | none => rfl
  | some xs =>
    simp only []
    apply bindO_erase
    · rw [seqModeDumpG_map, mapItems_idxItemsG_D, List.map_map]
      congr 2
      apply List.map_congr_left
      intro y _
      exact h y
    · intro ys; cases asList <;> simp [Shape.build]

theorem dumpTupleP_erase (cfg : Cfg) (dumpersP : List (Val → Outcome PVal)) (x : Val) :
    (dumpTupleP cfg dumpersP x).map PVal.erase
      = dumpTuple cfg (dumpersP.map fun l y => (l y).map PVal.erase) x := by
  unfold dumpTupleP dumpTuple
  cases hx : lenOf x with
  | none => rfl
  | some xs =>
    simp only [List.length_map]
    split
    · rfl
    · split
      · rfl
      · apply bindO_erase
        · rw [seqModeDumpG_map, mapItems_idxItemsG_D, zipApplyG_map_D]
        · intro ys; simp [Shape.build]

theorem dumpDictP_erase (cfg : Cfg) (keyP valueP : Val → Outcome PVal) (key value : Val → Outcome Val)
    (hk : ∀ x, (keyP x).map PVal.erase = key x) (hv : ∀ x, (valueP x).map PVal.erase = value x) (x : Val) :
    (dumpDictP cfg keyP valueP x).map PVal.erase = dumpDict cfg key value x := by
  have hk' : (fun x => (keyP x).map PVal.erase) = key := funext hk
  have hv' : (fun x => (valueP x).map PVal.erase) = value := funext hv
  cases x with
  | dict kvs =>
    simp only [dumpDictP, dumpDict]
    apply bindO_erase
    · rw [seqModeDumpG_map, mapItems_dictItemsG_D, hk', hv']
    · intro ys
      simpa using buildDictP_erase_D _ ys []
  | _ => rfl

theorem dumpUnionP_erase (DW : DumpWorld) (cases : List Ty) (keys : List String)
    (dmP : Ty → Val → Outcome PVal) (dm : Ty → Val → Outcome Val)
    (h : ∀ c y, (dmP c y).map PVal.erase = dm c y) (x : Val) :
    (dumpUnionP DW cases keys dmP x).map PVal.erase = dumpUnion DW cases keys dm x := by
  have hb : (dumpUnionP.byClass DW cases keys dmP x).map PVal.erase
      = dumpUnion.byClass DW cases keys dm x := by
    unfold dumpUnionP.byClass dumpUnion.byClass
    cases dispatchCase DW (dispatchTable keys cases []) x with
    | none => rfl
    | some t => exact h t x
  have hg : (dumpUnionP.general DW cases keys dmP x).map PVal.erase
      = dumpUnion.general DW cases keys dm x := by
    unfold dumpUnionP.general dumpUnion.general
    cases literalVals cases with
    | none => exact hb
    | some vs =>
      simp only []
      split
      · simp [PVal.erase_ofVal]
      · exact hb
  rcases cases with _ | ⟨a, _ | ⟨b, _ | ⟨c, rest⟩⟩⟩
  · simpa only [dumpUnionP, dumpUnion] using hg
  · simpa only [dumpUnionP, dumpUnion] using hg
  · simp only [dumpUnionP, dumpUnion]
    split
    · split
      · simp [PVal.erase_ofVal]
      · exact h _ _
    · exact hg
  · simpa only [dumpUnionP, dumpUnion] using hg

theorem map_interleave {α β : Type} (f : α → β) : ∀ (ks vs : List α),
    (interleave ks vs).map f = interleave (ks.map f) (vs.map f)
  | k :: ks, v :: vs => by simp [interleave, map_interleave f ks vs]
  | [], _ => by simp [interleave]
  | _ :: _, [] => by simp [interleave]

theorem pairUp_interleave {α : Type} : ∀ (ks vs : List α), pairUp (interleave ks vs) = ks.zip vs
  | k :: ks, v :: vs => by simp [interleave, pairUp, pairUp_interleave ks vs]
  | [], _ => by simp [interleave, pairUp]
  | _ :: _, [] => by simp [interleave, pairUp]

theorem dumpModelP_erase (cfg : Cfg) (fields : List Field)
    (fdP : Field → Val → Outcome PVal) (fd : Field → Val → Outcome Val)
    (h : ∀ fld y, (fdP fld y).map PVal.erase = fd fld y) (x : Val) :
    (dumpModelP cfg fields fdP x).map PVal.erase = dumpModel cfg fields fd x := by
  cases x with
  | obj c fs =>
    simp only [dumpModelP, dumpModel]
    apply bindO_erase
    · rw [seqModeDumpG_map, mapItems, List.map_map]
      congr 1
      apply List.map_congr_left
      intro fld _
      simp only [Function.comp]
      cases getField fld.name fs with
      | none => rfl
      | some v => simp [h]
    · intro ys
      simp [Shape.build, map_interleave, pairUp_interleave, Function.comp_def]
  | _ => rfl

theorem dumpP_erase (W : World) (DW : DumpWorld) (cfg : Cfg) :
    ∀ (n : Nat) (T : Ty) (x : Val), (dumpP W DW cfg n T x).map PVal.erase = dump W DW cfg n T x
  | 0, _, _ => rfl
  | n + 1, T, x => by
    have ih := dumpP_erase W DW cfg n
    cases T with
    | scalar s =>
      simp only [dumpP, dump]
      cases W.scalarDump s x <;> simp [Outcome.map, erase_scalarP]
    | any => simp [dumpP, dump, PVal.erase_ofVal]
    | literal vals => simp [dumpP, dump, PVal.erase_ofVal]
    | union cases keys =>
      simp only [dumpP, dump]
      exact dumpUnionP_erase DW cases keys _ _ (fun c y => ih c y) x
    | iter f dl elem =>
      simp only [dumpP, dump]
      exact dumpIterP_erase cfg dl _ _ (ih elem) x
    | tuple elems =>
      simp only [dumpP, dump]
      rw [dumpTupleP_erase, List.map_map]
      congr 1
      apply List.map_congr_left
      intro t _
      funext y
      exact ih t y
    | dict k v =>
      simp only [dumpP, dump]
      exact dumpDictP_erase cfg _ _ _ _ (ih k) (ih v) x
    | model cls =>
      simp only [dumpP, dump]
      cases W.classes cls with
      | none => rfl
      | some fields => exact dumpModelP_erase cfg fields _ _ (fun fld y => ih fld.ty y) x

end Adaptix.Morph
