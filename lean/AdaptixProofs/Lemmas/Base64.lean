/-
  Helper lemmas for the base64 codec model (`AdaptixModel/Codec/Base64.lean`).
-/
import AdaptixModel.Codec.Base64

namespace Adaptix.Codec.Base64
open Adaptix.Py Adaptix.Morph

theorem dec6_enc6 {n : Nat} (h : n < 64) : dec6 (enc6 n) = some n := by
  unfold enc6 dec6
  split
  · simp; omega
  split
  · rw [if_neg (by omega), if_pos (by omega)]; congr 1; omega
  split
  · rw [if_neg (by omega), if_neg (by omega), if_pos (by omega)]; congr 1; omega
  split
  · subst_vars; simp
  · have : n = 63 := by omega
    subst this; simp

theorem enc6_ne_pad (n : Nat) : enc6 n ≠ PAD := by
  unfold enc6 PAD
  repeat' split
  all_goals omega

theorem enc6_lt (n : Nat) : enc6 n < 128 := by
  unfold enc6
  repeat' split
  all_goals omega

theorem dec6_lt {c v : Nat} (h : dec6 c = some v) : v < 64 := by
  unfold dec6 at h
  repeat' split at h
  all_goals first | (cases h; omega) | cases h

theorem dec6_pad : dec6 PAD = none := by decide

theorem isAlpha_enc6 {n : Nat} (h : n < 64) : isAlpha (enc6 n) = true := by
  simp [isAlpha, dec6_enc6 h]

theorem isAlpha_pad : isAlpha PAD = false := by decide

/-- one complete quad read from quad position 0 -/
theorem a2bGo_quad {s0 s1 s2 s3 : Nat} (h0 : s0 < 64) (h1 : s1 < 64) (h2 : s2 < 64) (h3 : s3 < 64)
    (rest : List Nat) (l p : Nat) :
    a2bGo (enc6 s0 :: enc6 s1 :: enc6 s2 :: enc6 s3 :: rest) 0 l p =
      (a2bGo rest 0 0 0).map
        (fun out => (s0 * 4 + s1 / 16) :: (s1 % 16 * 16 + s2 / 4) :: (s2 % 4 * 64 + s3) :: out) := by
  simp only [a2bGo, enc6_ne_pad, if_false, dec6_enc6 h0, dec6_enc6 h1, dec6_enc6 h2, dec6_enc6 h3]
  cases a2bGo rest 0 0 0 <;> rfl

/-- **decode ∘ encode = id** on byte strings -/
theorem a2b_b2a (bs : List Nat) (h : ∀ b ∈ bs, b < 256) : a2b (b2a bs) = .ok bs := by
  unfold a2b
  induction bs using b2a.induct with
  | case1 => rfl
  | case2 a =>
    have ha : a < 256 := h a (by simp)
    have e0 : dec6 (enc6 (a / 4)) = some (a / 4) := dec6_enc6 (by omega)
    have e1 : dec6 (enc6 (a % 4 * 16)) = some (a % 4 * 16) := dec6_enc6 (by omega)
    simp only [b2a, a2bGo, enc6_ne_pad, if_false, e0, e1]
    simp [Except.map]
    omega
  | case3 a b =>
    have ha : a < 256 := h a (by simp)
    have hb : b < 256 := h b (by simp)
    have e0 : dec6 (enc6 (a / 4)) = some (a / 4) := dec6_enc6 (by omega)
    have e1 : dec6 (enc6 (a % 4 * 16 + b / 16)) = some (a % 4 * 16 + b / 16) := dec6_enc6 (by omega)
    have e2 : dec6 (enc6 (b % 16 * 4)) = some (b % 16 * 4) := dec6_enc6 (by omega)
    simp only [b2a, a2bGo, enc6_ne_pad, if_false, e0, e1, e2]
    simp [Except.map]
    omega
  | case4 a b c rest ih =>
    have ha : a < 256 := h a (by simp)
    have hb : b < 256 := h b (by simp)
    have hc : c < 256 := h c (by simp)
    have hrest : ∀ x ∈ rest, x < 256 := fun x hx => h x (by simp [hx])
    rw [b2a, a2bGo_quad (by omega) (by omega) (by omega) (by omega), ih hrest]
    simp only [Except.map]
    congr 2
    · omega
    congr 1
    · omega
    congr 1
    omega

theorem dec6_le {c v : Nat} (h : dec6 c = some v) : c < 128 := by
  unfold dec6 at h
  repeat' split at h
  all_goals first | omega | cases h

theorem isAlpha_lt {c : Nat} (h : isAlpha c = true) : c < 128 := by
  unfold isAlpha at h
  cases hd : dec6 c with
  | none => simp [hd] at h
  | some v => exact dec6_le hd

theorem isAlpha_ne_pad {c : Nat} (h : isAlpha c = true) : c ≠ PAD := by
  intro hc; subst hc; simp [isAlpha_pad] at h

/-- the encoder's output is alphabet characters followed by at most two pads -/
theorem b2a_shape (bs : List Nat) (h : ∀ b ∈ bs, b < 256) :
    ∃ d k, b2a bs = d ++ List.replicate k PAD ∧ d.all isAlpha = true ∧ k ≤ 2 ∧
      (d.length + k) % 4 = 0 ∧ (k = 0 ∨ d.length % 4 = 4 - k) := by
  induction bs using b2a.induct with
  | case1 => exact ⟨[], 0, rfl, rfl, by omega, rfl, .inl rfl⟩
  | case2 a =>
    have ha : a < 256 := h a (by simp)
    exact ⟨[enc6 (a / 4), enc6 (a % 4 * 16)], 2, rfl,
      by simp [isAlpha_enc6 (show a / 4 < 64 by omega), isAlpha_enc6 (show a % 4 * 16 < 64 by omega)],
      by omega, by simp, .inr (by simp)⟩
  | case3 a b =>
    have ha : a < 256 := h a (by simp)
    have hb : b < 256 := h b (by simp)
    exact ⟨[enc6 (a / 4), enc6 (a % 4 * 16 + b / 16), enc6 (b % 16 * 4)], 1, rfl,
      by simp [isAlpha_enc6 (show a / 4 < 64 by omega), isAlpha_enc6 (show a % 4 * 16 + b / 16 < 64 by omega),
        isAlpha_enc6 (show b % 16 * 4 < 64 by omega)],
      by omega, by simp, .inr (by simp)⟩
  | case4 a b c rest ih =>
    have ha : a < 256 := h a (by simp)
    have hb : b < 256 := h b (by simp)
    have hc : c < 256 := h c (by simp)
    obtain ⟨d, k, hd, hal, hk, hlen, hq⟩ := ih (fun x hx => h x (by simp [hx]))
    refine ⟨enc6 (a / 4) :: enc6 (a % 4 * 16 + b / 16) :: enc6 (b % 16 * 4 + c / 64) :: enc6 (c % 64) :: d, k,
      by simp [b2a, hd], ?_, hk, ?_, ?_⟩
    · simp [isAlpha_enc6 (show a / 4 < 64 by omega), isAlpha_enc6 (show a % 4 * 16 + b / 16 < 64 by omega),
        isAlpha_enc6 (show b % 16 * 4 + c / 64 < 64 by omega), isAlpha_enc6 (show c % 64 < 64 by omega)]
      simpa using hal
    · simp only [List.length_cons]; omega
    · simp only [List.length_cons]; omega

theorem dropWhile_alpha_append {d : List Nat} (k : Nat) (h : d.all isAlpha = true) :
    (d ++ List.replicate k PAD).dropWhile isAlpha = List.replicate k PAD := by
  induction d with
  | nil =>
    cases k with
    | zero => rfl
    | succ k => simp [List.replicate_succ, isAlpha_pad]
  | cons c cs ih =>
    simp only [List.all_cons, Bool.and_eq_true] at h
    simp [h.1, ih h.2]

/-- `B64_PATTERN.fullmatch` holds exactly for: alphabet characters, then at most two pads -/
theorem matchesPattern_iff (cs : List Nat) :
    matchesPattern cs = true ↔
      ∃ d k, cs = d ++ List.replicate k PAD ∧ d.all isAlpha = true ∧ k ≤ 2 := by
  constructor
  · intro h
    simp only [matchesPattern, Bool.and_eq_true, decide_eq_true_eq, List.all_eq_true, beq_iff_eq] at h
    refine ⟨cs.takeWhile isAlpha, (cs.dropWhile isAlpha).length, ?_, ?_, h.1⟩
    · conv => lhs; rw [← List.takeWhile_append_dropWhile (p := isAlpha) (l := cs)]
      congr 1
      exact List.eq_replicate_iff.mpr ⟨rfl, h.2⟩
    · exact List.all_takeWhile
  · rintro ⟨d, k, rfl, hd, hk⟩
    simp [matchesPattern, dropWhile_alpha_append k hd, hk]


/-- RFC 4648 §4 read as a function on sextets: a whole quad gives three bytes, a rest of
    three sextets two bytes, a rest of two sextets one byte (the unused low bits are dropped) -/
def decodeSextets : List Nat → List Nat
  | s0 :: s1 :: s2 :: s3 :: rest =>
    (s0 * 4 + s1 / 16) :: (s1 % 16 * 16 + s2 / 4) :: (s2 % 4 * 64 + s3) :: decodeSextets rest
  | [s0, s1, s2] => [s0 * 4 + s1 / 16, s1 % 16 * 16 + s2 / 4]
  | [s0, s1] => [s0 * 4 + s1 / 16]
  | _ => []

/-- what the non-strict decoder answers for `n` data characters followed by `k ≤ 2` pads -/
def verdict (n k : Nat) (out : List Nat) : Except B64Err (List Nat) :=
  if n % 4 = 0 then .ok out
  else if n % 4 = 1 then .error .oneMore
  else if n % 4 = 2 then (if k = 2 then .ok out else .error .padding)
  else (if 1 ≤ k then .ok out else .error .padding)

theorem verdict_map (n k : Nat) (out : List Nat) (f : List Nat → List Nat) :
    (verdict n k out).map f = verdict (n + 4) k (f out) := by
  unfold verdict
  rw [Nat.add_mod_right]
  repeat' split
  all_goals rfl

theorem alpha_dec {c : Nat} (h : isAlpha c = true) : ∃ v, dec6 c = some v := by
  unfold isAlpha at h
  cases hd : dec6 c with
  | none => simp [hd] at h
  | some v => exact ⟨v, rfl⟩

theorem a2bGo_alpha_pads : ∀ (d : List Nat) (k : Nat), d.all isAlpha = true → k ≤ 2 →
    a2bGo (d ++ List.replicate k PAD) 0 0 0 = verdict d.length k (decodeSextets (d.filterMap dec6))
  | [], k, _, hk => by
    have : k = 0 ∨ k = 1 ∨ k = 2 := by omega
    rcases this with rfl | rfl | rfl <;> simp [a2bGo, verdict, decodeSextets, List.replicate]
  | [c0], k, h, hk => by
    simp only [List.all_cons, List.all_nil, Bool.and_true] at h
    obtain ⟨v0, e0⟩ := alpha_dec h
    have n0 := isAlpha_ne_pad h
    have : k = 0 ∨ k = 1 ∨ k = 2 := by omega
    rcases this with rfl | rfl | rfl <;>
      simp [a2bGo, verdict, List.replicate, n0, e0]
  | [c0, c1], k, h, hk => by
    simp only [List.all_cons, List.all_nil, Bool.and_true, Bool.and_eq_true] at h
    obtain ⟨v0, e0⟩ := alpha_dec h.1
    obtain ⟨v1, e1⟩ := alpha_dec h.2
    have n0 := isAlpha_ne_pad h.1
    have n1 := isAlpha_ne_pad h.2
    have : k = 0 ∨ k = 1 ∨ k = 2 := by omega
    rcases this with rfl | rfl | rfl <;>
      simp [a2bGo, verdict, decodeSextets, List.replicate, n0, n1, e0, e1, Except.map]
  | [c0, c1, c2], k, h, hk => by
    simp only [List.all_cons, List.all_nil, Bool.and_true, Bool.and_eq_true] at h
    obtain ⟨v0, e0⟩ := alpha_dec h.1
    obtain ⟨v1, e1⟩ := alpha_dec h.2.1
    obtain ⟨v2, e2⟩ := alpha_dec h.2.2
    have n0 := isAlpha_ne_pad h.1
    have n1 := isAlpha_ne_pad h.2.1
    have n2 := isAlpha_ne_pad h.2.2
    have : k = 0 ∨ k = 1 ∨ k = 2 := by omega
    rcases this with rfl | rfl | rfl <;>
      simp [a2bGo, verdict, decodeSextets, List.replicate, n0, n1, n2, e0, e1, e2, Except.map]
  | c0 :: c1 :: c2 :: c3 :: rest, k, h, hk => by
    simp only [List.all_cons, Bool.and_eq_true] at h
    obtain ⟨v0, e0⟩ := alpha_dec h.1
    obtain ⟨v1, e1⟩ := alpha_dec h.2.1
    obtain ⟨v2, e2⟩ := alpha_dec h.2.2.1
    obtain ⟨v3, e3⟩ := alpha_dec h.2.2.2.1
    have n0 := isAlpha_ne_pad h.1
    have n1 := isAlpha_ne_pad h.2.1
    have n2 := isAlpha_ne_pad h.2.2.1
    have n3 := isAlpha_ne_pad h.2.2.2.1
    have ih := a2bGo_alpha_pads rest k h.2.2.2.2 hk
    simp only [List.cons_append, a2bGo, n0, n1, n2, n3, if_false, e0, e1, e2, e3, ih,
      List.filterMap_cons, decodeSextets, List.length_cons]
    cases hv : verdict rest.length k (decodeSextets (List.filterMap dec6 rest)) with
    | error e =>
      have := verdict_map rest.length k (decodeSextets (List.filterMap dec6 rest))
        (fun out => (v0 * 4 + v1 / 16) :: (v1 % 16 * 16 + v2 / 4) :: (v2 % 4 * 64 + v3) :: out)
      rw [hv] at this
      simpa [Except.map] using this
    | ok out =>
      have := verdict_map rest.length k (decodeSextets (List.filterMap dec6 rest))
        (fun out => (v0 * 4 + v1 / 16) :: (v1 % 16 * 16 + v2 / 4) :: (v2 % 4 * 64 + v3) :: out)
      rw [hv] at this
      simpa [Except.map] using this


theorem toNat_ofNat_ascii {n : Nat} (h : n < 128) : (Char.ofNat n).toNat = n := by
  have hv : n.isValidChar := Or.inl (by omega)
  simp [Char.ofNat, hv, Char.ofNatAux, Char.toNat]

theorem codes_ofCodes {cs : List Nat} (h : ∀ c ∈ cs, c < 128) : codes (ofCodes cs) = cs := by
  unfold codes ofCodes
  simp only [String.toList_ofList, List.map_map]
  induction cs with
  | nil => rfl
  | cons c cs ih =>
    simp only [List.map_cons, Function.comp_apply, toNat_ofNat_ascii (h c (by simp))]
    rw [ih (fun x hx => h x (by simp [hx]))]

theorem b2a_ascii (bs : List Nat) (h : ∀ b ∈ bs, b < 256) : ∀ c ∈ b2a bs, c < 128 := by
  obtain ⟨d, k, hd, hal, _, _, _⟩ := b2a_shape bs h
  intro c hc
  rw [hd, List.mem_append] at hc
  rcases hc with hc | hc
  · exact isAlpha_lt (List.all_eq_true.mp hal c hc)
  · rw [List.mem_replicate] at hc
    rw [hc.2]; decide

theorem loadCodes_b2a (bs : List Nat) (h : ∀ b ∈ bs, b < 256) : loadCodes (b2a bs) = .ok bs := by
  unfold loadCodes
  have h1 : (b2a bs).any (fun c => decide (128 ≤ c)) = false := by
    rw [List.any_eq_false]
    intro c hc
    have := b2a_ascii bs h c hc
    simp; omega
  have h2 : matchesPattern (b2a bs) = true := by
    obtain ⟨d, k, hd, hal, hk, _, _⟩ := b2a_shape bs h
    exact (matchesPattern_iff _).mpr ⟨d, k, hd, hal, hk⟩
  simp [h1, h2, a2b_b2a bs h]


/-- the `w` low bits of `n`, most significant first -/
def bits : Nat → Nat → List Bool
  | 0, _ => []
  | w + 1, n => bits w (n / 2) ++ [n % 2 == 1]

theorem bits_length (w n : Nat) : (bits w n).length = w := by
  induction w generalizing n with
  | zero => rfl
  | succ w ih => simp [bits, ih]

/-- concatenating bit strings is positional notation -/
theorem bits_split (a b x y : Nat) (hy : y < 2 ^ b) :
    bits (a + b) (x * 2 ^ b + y) = bits a x ++ bits b y := by
  induction b generalizing y with
  | zero =>
    have : y = 0 := by simpa using hy
    subst this; simp [bits]
  | succ b ih =>
    have e : x * 2 ^ (b + 1) = 2 * (x * 2 ^ b) := by rw [Nat.pow_succ]; ac_rfl
    have hp : 2 ^ (b + 1) = 2 * 2 ^ b := by rw [Nat.pow_succ]; ac_rfl
    have h1 : (x * 2 ^ (b + 1) + y) / 2 = x * 2 ^ b + y / 2 := by rw [e]; omega
    have h2 : (x * 2 ^ (b + 1) + y) % 2 = y % 2 := by rw [e]; omega
    show bits (a + b + 1) _ = _
    simp only [bits, h1, h2]
    rw [ih (y / 2) (by omega), List.append_assoc]

def sextetBits (ss : List Nat) : List Bool := ss.flatMap (bits 6)
def byteBits (bs : List Nat) : List Bool := bs.flatMap (bits 8)

theorem quad_bits {s0 s1 s2 s3 : Nat} (h0 : s0 < 64) (h1 : s1 < 64) (h2 : s2 < 64) (h3 : s3 < 64) :
    bits 8 (s0 * 4 + s1 / 16) ++ (bits 8 (s1 % 16 * 16 + s2 / 4) ++ bits 8 (s2 % 4 * 64 + s3)) =
      bits 6 s0 ++ (bits 6 s1 ++ (bits 6 s2 ++ bits 6 s3)) := by
  have hb0 : s0 * 4 + s1 / 16 < 256 := by omega
  have hb1 : s1 % 16 * 16 + s2 / 4 < 256 := by omega
  have hb2 : s2 % 4 * 64 + s3 < 256 := by omega
  have l := bits_split 8 16 (s0 * 4 + s1 / 16) ((s1 % 16 * 16 + s2 / 4) * 2 ^ 8 + (s2 % 4 * 64 + s3)) (by omega)
  have l' := bits_split 8 8 (s1 % 16 * 16 + s2 / 4) (s2 % 4 * 64 + s3) (by omega)
  have r := bits_split 6 18 s0 (s1 * 2 ^ 12 + (s2 * 2 ^ 6 + s3)) (by omega)
  have r' := bits_split 6 12 s1 (s2 * 2 ^ 6 + s3) (by omega)
  have r'' := bits_split 6 6 s2 s3 (by omega)
  have e : (s0 * 4 + s1 / 16) * 2 ^ 16 + ((s1 % 16 * 16 + s2 / 4) * 2 ^ 8 + (s2 % 4 * 64 + s3)) =
      s0 * 2 ^ 18 + (s1 * 2 ^ 12 + (s2 * 2 ^ 6 + s3)) := by omega
  rw [← l', ← l, ← r'', ← r', ← r, e]


/-- the quad reading of the sextets is the bit string of the sextets cut to whole bytes -/
theorem decodeSextets_bits : ∀ ss : List Nat, (∀ s ∈ ss, s < 64) →
    byteBits (decodeSextets ss) = (sextetBits ss).take (8 * (6 * ss.length / 8))
  | [], _ => by simp [decodeSextets, byteBits, sextetBits]
  | [s0], _ => by simp [decodeSextets, byteBits, sextetBits]
  | [s0, s1], h => by
    have h0 : s0 < 64 := h s0 (by simp)
    have h1 : s1 < 64 := h s1 (by simp)
    have r := bits_split 6 6 s0 s1 (by omega)
    have l := bits_split 8 4 (s0 * 4 + s1 / 16) (s1 % 16) (by omega)
    have e : (s0 * 4 + s1 / 16) * 2 ^ 4 + s1 % 16 = s0 * 2 ^ 6 + s1 := by omega
    simp only [decodeSextets, byteBits, sextetBits, List.flatMap_cons, List.flatMap_nil, List.append_nil,
      List.length_cons, List.length_nil]
    rw [← r, ← e, l]
    exact (List.take_left' (bits_length 8 _)).symm
  | [s0, s1, s2], h => by
    have h0 : s0 < 64 := h s0 (by simp)
    have h1 : s1 < 64 := h s1 (by simp)
    have h2 : s2 < 64 := h s2 (by simp)
    have r := bits_split 6 12 s0 (s1 * 2 ^ 6 + s2) (by omega)
    have r' := bits_split 6 6 s1 s2 (by omega)
    have l := bits_split 16 2 ((s0 * 4 + s1 / 16) * 2 ^ 8 + (s1 % 16 * 16 + s2 / 4)) (s2 % 4) (by omega)
    have l' := bits_split 8 8 (s0 * 4 + s1 / 16) (s1 % 16 * 16 + s2 / 4) (by omega)
    have e : ((s0 * 4 + s1 / 16) * 2 ^ 8 + (s1 % 16 * 16 + s2 / 4)) * 2 ^ 2 + s2 % 4 =
        s0 * 2 ^ 12 + (s1 * 2 ^ 6 + s2) := by omega
    simp only [decodeSextets, byteBits, sextetBits, List.flatMap_cons, List.flatMap_nil, List.append_nil,
      List.length_cons, List.length_nil]
    rw [← r', ← r, ← e, l, l']
    exact (List.take_left' (by simp [bits_length])).symm
  | s0 :: s1 :: s2 :: s3 :: rest, h => by
    have h0 : s0 < 64 := h s0 (by simp)
    have h1 : s1 < 64 := h s1 (by simp)
    have h2 : s2 < 64 := h s2 (by simp)
    have h3 : s3 < 64 := h s3 (by simp)
    have ih := decodeSextets_bits rest (fun s hs => h s (by simp [hs]))
    have q := quad_bits h0 h1 h2 h3
    have hlen : (bits 6 s0 ++ (bits 6 s1 ++ (bits 6 s2 ++ bits 6 s3))).length = 24 := by simp [bits_length]
    have hn : 8 * (6 * (rest.length + 4) / 8) = 24 + 8 * (6 * rest.length / 8) := by omega
    simp only [decodeSextets, byteBits, sextetBits, List.flatMap_cons, List.length_cons] at ih ⊢
    rw [ih, hn]
    simp only [← List.append_assoc] at q ⊢
    rw [q, ← hlen]
    simp only [List.append_assoc]
    have := List.take_length_add_append (l₁ := bits 6 s0 ++ (bits 6 s1 ++ (bits 6 s2 ++ bits 6 s3)))
      (l₂ := List.flatMap (bits 6) rest) (i := 8 * (6 * rest.length / 8))
    simp only [List.append_assoc] at this
    exact this.symm


/-- the sextets of a byte string (what `b2a` writes before the alphabet and the pads) -/
def sextets : List Nat → List Nat
  | [] => []
  | [a] => [a / 4, a % 4 * 16]
  | [a, b] => [a / 4, a % 4 * 16 + b / 16, b % 16 * 4]
  | a :: b :: c :: rest => a / 4 :: (a % 4 * 16 + b / 16) :: (b % 16 * 4 + c / 64) :: c % 64 :: sextets rest

/-- canonical sextet strings: no lone sextet at the end, unused low bits zero -/
def CanonS : List Nat → Prop
  | [] => True
  | [_] => False
  | [_, s1] => s1 % 16 = 0
  | [_, _, s2] => s2 % 4 = 0
  | _ :: _ :: _ :: _ :: rest => CanonS rest

/-- **encode ∘ decode = id on canonical sextet strings** -/
theorem sextets_decodeSextets : ∀ ss : List Nat, (∀ s ∈ ss, s < 64) → CanonS ss →
    sextets (decodeSextets ss) = ss
  | [], _, _ => rfl
  | [_], _, h => absurd h (by simp [CanonS])
  | [s0, s1], h, hc => by
    have h0 : s0 < 64 := h s0 (by simp)
    have h1 : s1 < 64 := h s1 (by simp)
    simp only [CanonS] at hc
    simp only [decodeSextets, sextets]
    congr 1
    · omega
    congr 1
    omega
  | [s0, s1, s2], h, hc => by
    have h0 : s0 < 64 := h s0 (by simp)
    have h1 : s1 < 64 := h s1 (by simp)
    have h2 : s2 < 64 := h s2 (by simp)
    simp only [CanonS] at hc
    simp only [decodeSextets, sextets]
    congr 1
    · omega
    congr 1
    · omega
    congr 1
    omega
  | s0 :: s1 :: s2 :: s3 :: rest, h, hc => by
    have h0 : s0 < 64 := h s0 (by simp)
    have h1 : s1 < 64 := h s1 (by simp)
    have h2 : s2 < 64 := h s2 (by simp)
    have h3 : s3 < 64 := h s3 (by simp)
    simp only [CanonS] at hc
    have ih := sextets_decodeSextets rest (fun s hs => h s (by simp [hs])) hc
    simp only [decodeSextets, sextets, ih]
    congr 1
    · omega
    congr 1
    · omega
    congr 1
    · omega
    congr 1
    omega

/-- … and decode ∘ encode = id at the sextet level (bytes < 256) -/
theorem decodeSextets_sextets (bs : List Nat) (h : ∀ b ∈ bs, b < 256) : decodeSextets (sextets bs) = bs := by
  induction bs using sextets.induct with
  | case1 => rfl
  | case2 a =>
    have := h a (by simp)
    simp only [sextets, decodeSextets]; congr 1; omega
  | case3 a b =>
    have := h a (by simp); have := h b (by simp)
    simp only [sextets, decodeSextets]; congr 1; · omega
    congr 1; omega
  | case4 a b c rest ih =>
    have := h a (by simp); have := h b (by simp); have := h c (by simp)
    simp only [sextets, decodeSextets, ih (fun x hx => h x (by simp [hx]))]
    congr 1; · omega
    congr 1; · omega
    congr 1; omega

/-- the sextets of a byte string are canonical: the two functions are mutually inverse bijections between byte
    strings and canonical sextet strings -/
theorem canonS_sextets (bs : List Nat) : CanonS (sextets bs) := by
  induction bs using sextets.induct with
  | case1 => trivial
  | case2 a => simp only [sextets, CanonS]; omega
  | case3 a b => simp only [sextets, CanonS]; omega
  | case4 a b c rest ih => simpa only [sextets, CanonS] using ih


/-- `b2a` writes the sextets through the alphabet and pads to a multiple of four -/
theorem b2a_eq_sextets (bs : List Nat) :
    b2a bs = (sextets bs).map enc6 ++ List.replicate ((3 - bs.length % 3) % 3) PAD := by
  induction bs using b2a.induct with
  | case1 => rfl
  | case2 a => rfl
  | case3 a b => rfl
  | case4 a b c rest ih =>
    have hl : (3 - (rest.length + 3) % 3) % 3 = (3 - rest.length % 3) % 3 := by omega
    simp only [b2a, sextets, List.map_cons, List.cons_append, List.length_cons, ih]
    rw [show rest.length + 1 + 1 + 1 = rest.length + 3 from rfl, hl]


end Adaptix.Codec.Base64
