import AdaptixProofs.Lemmas.ThreadsTypedStep
import AdaptixProofs.Lemmas.ThreadsUnfold
import AdaptixProofs.Lemmas.ThreadsInv
import AdaptixProofs.Lemmas.ThreadsProgress

/-
  The typing invariant is inductive (both comparison modes).  `Inv` is used only for the `call` action: the
  result of a call is the unfolding of the type because every reachable stub is bound.
-/
namespace Adaptix.Threads

variable {G : Graph} {sys : Sys} {s : State}

theorem mem_lcPut' {ty : TyId} {r : Ref} : ∀ {lc : List (TyId × Ref)} {e : TyId × Ref}, e ∈ lcPut lc ty r →
    e ∈ lc ∨ (e.1 = ty ∧ e.2 = r)
  | [], e, h => by
    simp [lcPut] at h
    exact Or.inr (by rw [h]; exact ⟨rfl, rfl⟩)
  | e0 :: es, e, h => by
    unfold lcPut at h
    split at h
    · rename_i heq
      rcases List.mem_cons.mp h with h | h
      · exact Or.inr (by rw [h]; exact ⟨by simpa using heq, rfl⟩)
      · exact Or.inl (List.mem_cons_of_mem _ h)
    · rcases List.mem_cons.mp h with h | h
      · exact Or.inl (by rw [h]; exact List.mem_cons_self)
      · rcases mem_lcPut' h with h | h
        · exact Or.inl (List.mem_cons_of_mem _ h)
        · exact Or.inr h

theorem all2_head {s' : State} {stack : List Ref} {ty : TyId} {b : Bool} {rest : List Abs}
    (h : All2 (StackTy G s') stack ((ty, b) :: rest)) :
    ∃ r rs, stack = r :: rs ∧ StackTy G s' r (ty, b) ∧ All2 (StackTy G s') rs rest := by
  cases stack with
  | nil => exact h.elim
  | cons r rs => exact ⟨r, rs, rfl, h.1, h.2⟩

theorem specRes_ok {G : Graph} {n d : Nat} {ty : TyId} (h : failsTy G ty = false) :
    specRes G n d ty = unfold G n d ty := by
  simp [specRes, h]

theorem tstep_inv (hf : ∀ ty, sys.fails ty = failsTy G ty) (hinv : Inv sys s) (ht : TInv G sys s) (t : Tid) :
    TInv G sys (step sys s t) := by
  unfold step
  cases hth : s.threads[t]? with
  | none => exact ht
  | some th =>
    have hT := ht.threads t th hth
    have frame_local : ∀ (th' : Thread) (l : Label), TThread G sys s th' →
        TInv G sys (emit (setThread s t th') l) := by
      intro th' l hself
      refine ht.frame (TExt.same rfl rfl) rfl ?_ ?_ ?_ ?_ (hself.mono (TExt.same rfl rfl))
      · intro j cd h1 h2; simp at h1; rw [h2] at h1; cases h1
      · intro en hen; exact Or.inl hen
      · intro x sd' r hx hr; exact Or.inl ⟨sd', hx, hr, rfl⟩
      · intro en hen; exact Or.inl hen
    simp only
    cases hp : th.phase with
    | done => exact ht
    | idle =>
      simp only [stepIdle]
      cases hl : lcLookup s.loaderCache th.ty with
      | some r =>
        obtain ⟨e, he, he1, he2⟩ := lcLookup_some' hl
        refine frame_local _ _ {
          typed := hT.typed
          stack := fun pc sub h => by cases h
          sub := fun pc r h => by cases h
          put := fun h => by cases h
          call := fun r' h => by
            cases h
            have := ht.lc e he
            rw [he1, he2] at this
            exact this
          locs := hT.locs
          res := hT.res }
      | none =>
        refine frame_local _ _ {
          typed := hT.typed
          stack := fun pc sub h => by
            simp only [nextPhase] at h
            split at h
            · cases h; exact ⟨[], rfl, trivial⟩
            · cases h
          sub := fun pc r h => by
            simp only [nextPhase] at h
            split at h <;> cases h
          put := fun h hnf => by
            simp only [nextPhase] at h
            split at h
            · cases h
            · rename_i hlen
              have hlen0 : (sys.body th.ty).length = 0 := by omega
              have := typed_final_ok hT.typed hnf
              rw [hlen0] at this
              simp [absAt, absRun] at this
          call := fun r h => absurd h (nextPhase_ne_call _ _ _)
          locs := fun loc x h => by cases h
          res := hT.res }
    | put =>
      simp only
      by_cases hfl : sys.fails th.ty = true
      · -- the request cannot be satisfied: ProviderNotFoundError is the specified outcome
        rw [if_pos hfl]
        refine frame_local _ _ {
          typed := hT.typed
          stack := fun pc sub h => by cases h
          sub := fun pc r h => by cases h
          put := fun h => by cases h
          call := fun r' h => by cases h
          locs := hT.locs
          res := fun res h => by
            cases h
            simp [specRes, ← hf, hfl] }
      rw [if_neg hfl]
      have hnf : failsTy G th.ty = false := by rw [← hf]; simpa using hfl
      obtain ⟨r, rest, hstack, hr⟩ := hT.put hp hnf
      have hhead : th.stack.headD (.prim 0) = r := by rw [hstack]; rfl
      simp only [stepPut, hhead]
      have e : TExt s (emit (setThread { s with loaderCache := lcPut s.loaderCache th.ty r } t
          { th with phase := .call r }) (.lcPut t th.ty r)) := TExt.same rfl rfl
      refine ht.frame e rfl ?_ ?_ ?_ ?_ ?_
      · intro j cd h1 h2; simp at h1; rw [h2] at h1; cases h1
      · intro en hen; exact Or.inl hen
      · intro x sd' r' hx hr'; exact Or.inl ⟨sd', hx, hr', rfl⟩
      · intro en hen
        simp only [emit_loaderCache, setThread_loaderCache] at hen
        rcases mem_lcPut' hen with h | ⟨h1, h2⟩
        · exact Or.inl h
        · exact Or.inr (by rw [h1, h2]; exact ⟨hr.mono e, hnf⟩)
      · exact {
          typed := hT.typed
          stack := fun pc sub h => by cases h
          sub := fun pc r h => by cases h
          put := fun h => by cases h
          call := fun r' h => by cases h; exact ⟨hr.mono e, hnf⟩
          locs := hT.locs
          res := hT.res }
    | call r =>
      have hI := hinv.threads t th hth
      refine frame_local _ _ {
        typed := hT.typed
        stack := fun pc sub h => by cases h
        sub := fun pc r h => by cases h
        put := fun h => by cases h
        call := fun r' h => by cases h
        locs := hT.locs
        res := fun res h => by
          cases h
          rw [specRes_ok (hT.call r hp).2]
          exact eval_unfold hinv ht sys.fuel th.depth r th.ty (hI.call r hp) (hT.call r hp).1 }
    | run pc sub =>
      obtain ⟨st, hst, hall⟩ := hT.stack pc sub hp
      simp only
      cases hins : (sys.body th.ty)[pc]? with
      | none =>
        -- off the end of the program: the abstract stack is the final one
        have hge : (sys.body th.ty).length ≤ pc := List.getElem?_eq_none_iff.mp hins
        refine frame_local _ _ {
          typed := hT.typed
          stack := fun pc sub h => by cases h
          sub := fun pc r h => by cases h
          put := fun _ hnf => by
            have hfin : absAt G (sys.body th.ty) pc = some [(th.ty, false)] := by
              have := typed_final_ok hT.typed hnf
              unfold absAt at this ⊢
              rw [List.take_of_length_le hge]
              rw [List.take_length] at this
              exact this
            rw [hfin] at hst
            cases hst
            obtain ⟨r, rs, hs, hr, _⟩ := all2_head hall
            exact ⟨r, rs, hs, hr.1⟩
          call := fun r' h => by cases h
          locs := hT.locs
          res := hT.res }
      | some ins =>
        obtain ⟨st', habs, _⟩ := abs_next hT.typed hins hst
        simp only
        cases ins with
        | stubGet loc =>
          simp only [stepInstr]
          have hst' : st' = (G.locTy loc, true) :: st := by
            simp only [absStep] at habs; cases habs; rfl
          cases hl : lookupLoc th.locToStub loc with
          | some x =>
            obtain ⟨sd, h1, h2⟩ := hT.locs loc x (lookupLoc_mem hl)
            refine frame_local _ _ (tthread_advance hT.typed hins hst habs ?_ hT.locs hT.res)
            rw [hst']
            exact ⟨⟨⟨sd, h1, by rw [h2]⟩, fun h => by cases h⟩, hall⟩
          | none =>
            have e : TExt s (emit (setThread
                { s with stubs := s.stubs ++ [{ loc := loc, owner := t, target := none }] } t
                { th with phase := nextPhase (sys.body th.ty).length (pc + 1),
                          stack := .stub s.stubs.length :: th.stack,
                          locToStub := (loc, s.stubs.length) :: th.locToStub })
                (.stubNew t loc s.stubs.length)) :=
              ⟨⟨[], by simp⟩, fun x sd h => ⟨sd, by
                simp only [emit_stubs, setThread_stubs]
                rw [List.getElem?_append_left (lt_length_of_getElem? h)]; exact h, rfl⟩⟩
            refine ht.frame e rfl ?_ ?_ ?_ ?_ ?_
            · intro j cd h1 h2; simp at h1; rw [h2] at h1; cases h1
            · intro en hen; exact Or.inl hen
            · intro x sd' r hx hr
              simp only [emit_stubs, setThread_stubs] at hx
              rcases Nat.lt_or_ge x s.stubs.length with hxl | hxl
              · rw [List.getElem?_append_left hxl] at hx
                exact Or.inl ⟨sd', hx, hr, rfl⟩
              · have h2 := lt_length_of_getElem? hx
                simp at h2
                have : x = s.stubs.length := by omega
                subst this
                rw [List.getElem?_concat_length] at hx
                cases hx; cases hr
            · intro en hen; exact Or.inl hen
            · refine tthread_advance hT.typed hins hst habs ?_ ?_ hT.res
              · rw [hst']
                exact ⟨⟨⟨_, List.getElem?_concat_length, rfl⟩, fun h => by cases h⟩,
                  hall.mono (fun _ _ h => h.mono e)⟩
              · intro loc' x hm
                rcases List.mem_cons.mp hm with hm | hm
                · cases hm; exact ⟨_, List.getElem?_concat_length, rfl⟩
                · obtain ⟨sd, h1, h2⟩ := hT.locs loc' x hm
                  obtain ⟨sd', h3, h4⟩ := e.stubs x sd h1
                  exact ⟨sd', h3, by rw [h4, h2]⟩
        | stubBind loc =>
          simp only [stepInstr]
          -- the abstract stack has a loader of the location's type on top
          have hshape : ∃ rest, st = (G.locTy loc, false) :: rest ∧ st' = st := by
            simp only [absStep] at habs
            split at habs
            · rename_i ty rest
              split at habs
              · rename_i hty; cases habs; exact ⟨rest, by rw [hty], rfl⟩
              · cases habs
            · cases habs
          obtain ⟨arest, hsteq, hst'eq⟩ := hshape
          rw [hsteq] at hall
          obtain ⟨r, rs, hs, hr, hrs⟩ := all2_head hall
          have hhead : th.stack.headD (.prim 0) = r := by rw [hs]; rfl
          cases hl : lookupLoc th.locToStub loc with
          | none =>
            refine frame_local _ _ (tthread_advance hT.typed hins hst habs ?_ hT.locs hT.res)
            rw [hst'eq, hsteq, hs]; exact ⟨hr, hrs⟩
          | some x =>
            obtain ⟨sd0, hx0, hloc0⟩ := hT.locs loc x (lookupLoc_mem hl)
            simp only [hhead]
            have e : TExt s (emit (setThread
                { s with stubs := s.stubs.modify x (fun sd => { sd with target := some r }) } t
                { th with phase := nextPhase (sys.body th.ty).length (pc + 1),
                          locToStub := eraseLoc th.locToStub loc }) (.stubBind t loc x r)) :=
              ⟨⟨[], by simp⟩, fun y sd h => by
                simp only [emit_stubs, setThread_stubs, List.getElem?_modify]
                by_cases hxy : x = y
                · subst hxy; rw [h]; exact ⟨{ sd with target := some r }, by simp, rfl⟩
                · exact ⟨sd, by simp [hxy, h], rfl⟩⟩
            refine ht.frame e rfl ?_ ?_ ?_ ?_ ?_
            · intro j cd h1 h2; simp at h1; rw [h2] at h1; cases h1
            · intro en hen; exact Or.inl hen
            · intro y sd' r' hy hr'
              simp only [emit_stubs, setThread_stubs, List.getElem?_modify] at hy
              by_cases hxy : x = y
              · subst hxy
                simp [hx0] at hy
                subst hy
                have : r = r' := by simpa using hr'
                subst this
                exact Or.inr ⟨by simp only; rw [hloc0]; exact hr.1.mono e, hr.2 rfl⟩
              · simp [hxy] at hy
                exact Or.inl ⟨sd', hy, hr', rfl⟩
            · intro en hen; exact Or.inl hen
            · refine tthread_advance hT.typed hins hst habs ?_ ?_ hT.res
              · rw [hst'eq, hsteq, hs]
                exact ⟨hr.mono e, hrs.mono (fun _ _ h => h.mono e)⟩
              · intro loc' y hm
                obtain ⟨h1, _⟩ := mem_eraseLoc.mp hm
                obtain ⟨sd, h2, h3⟩ := hT.locs loc' y h1
                obtain ⟨sd', h4, h5⟩ := e.stubs y sd h2
                exact ⟨sd', h4, by rw [h5, h3]⟩
        | cached site c n kind =>
          simp only [stepInstr]
          -- a miss (after `look`, or the unreachable fallback of `get`)
          have hmiss : TInv G sys
              (match created s t site c (th.stack.take n).reverse kind with
               | none =>
                 emit (setThread s t { th with phase := nextPhase (sys.body th.ty).length (pc + 1),
                                               stack := th.stack.drop n })
                   (.ccContains t site (th.stack.take n).reverse false)
               | some (s', r) =>
                 emit (setThread s' t { th with phase := .run pc (.store r) })
                   (.ccContains t site (th.stack.take n).reverse false)) := by
            cases hcr : created s t site c (th.stack.take n).reverse kind with
            | none =>
              have hk := created_none_fail hcr
              subst hk
              obtain ⟨h1, _⟩ := abs_push habs
              obtain ⟨hn, hsteq⟩ := h1 rfl
              refine frame_local _ _ (tthread_advance hT.typed hins hst habs ?_ hT.locs hT.res)
              rw [hsteq, hn, List.drop_zero]; exact hall
            | some p =>
              obtain ⟨s1, r⟩ := p
              obtain ⟨e, h1, h2, h3, h4, h5⟩ := created_typed (t := t) ht hall habs hcr
              simp only
              have e' : TExt s (emit (setThread s1 t { th with phase := .run pc (.store r) })
                  (.ccContains t site (th.stack.take n).reverse false)) := ⟨e.heap, e.stubs⟩
              refine ht.frame (t := t) (th' := { th with phase := .run pc (.store r) }) e'
                (by simp only [emit_threads, setThread_threads, created_threads hcr]) h5 ?_ ?_ ?_ ?_
              · intro en hen; simp only [emit_callCache, setThread_callCache, h2] at hen; exact Or.inl hen
              · intro x sd' r' hx hr'
                simp only [emit_stubs, setThread_stubs, h1] at hx
                exact Or.inl ⟨sd', hx, hr', rfl⟩
              · intro en hen; simp only [emit_loaderCache, setThread_loaderCache, h3] at hen; exact Or.inl hen
              · refine (hT.mono e').set_sub hp ?_
                intro r' hr' site' c' n' kind' hins' hk'
                cases hr'
                rw [hins] at hins'
                cases hins'
                obtain ⟨h6, h7⟩ := h4 hk'
                exact ⟨h6.mono ⟨⟨[], by simp⟩, fun x sd h => ⟨sd, h, rfl⟩⟩, h7⟩
          cases sub with
          | look =>
            simp only
            cases hl : ccLookup sys.mode s.stubs s.callCache
                { site := site, const := c, aux := kind.isAux, args := (th.stack.take n).reverse } with
            | some v => exact frame_local _ _ (hT.set_sub hp (fun r h => by cases h))
            | none => exact hmiss
          | get =>
            simp only
            cases hl : ccLookup sys.mode s.stubs s.callCache
                { site := site, const := c, aux := kind.isAux, args := (th.stack.take n).reverse } with
            | none => exact hmiss
            | some v =>
              obtain ⟨en, hen, hk, hv⟩ := ccLookup_some hl
              obtain ⟨hc1, hc2⟩ := keyEq_const_aux hk
              refine frame_local _ _ (tthread_advance hT.typed hins hst habs ?_ hT.locs hT.res)
              refine all2_push hall habs (fun hkind => ?_)
              have := ht.cache en hen (by rw [hc2]; exact hkind)
              rw [hv, hc1] at this
              exact this
          | store r =>
            simp only
            have e : TExt s (emit (setThread
                { s with callCache := ccPut sys.mode s.stubs s.callCache
                           { site := site, const := c, aux := kind.isAux, args := (th.stack.take n).reverse } r } t
                { th with phase := nextPhase (sys.body th.ty).length (pc + 1),
                          stack := if kind.isAux then th.stack.drop n else r :: th.stack.drop n })
                (.ccStore t site r)) := TExt.same rfl rfl
            refine ht.frame e rfl ?_ ?_ ?_ ?_ ?_
            · intro j cd h1 h2; simp at h1; rw [h2] at h1; cases h1
            · intro en hen
              simp only [emit_callCache, setThread_callCache] at hen
              rcases mem_ccPut hen with h | ⟨h1, h2⟩
              · exact Or.inl h
              · right
                intro haux
                have hca : en.1.const = c ∧ en.1.aux = kind.isAux := by
                  rcases h2 with h2 | h2
                  · rw [h2]; exact ⟨rfl, rfl⟩
                  · exact keyEq_const_aux h2
                obtain ⟨h3, h4⟩ := hT.sub pc r hp site c n kind hins (by rw [← hca.2]; exact haux)
                rw [h1, hca.1]
                exact ⟨h3.mono e, h4⟩
            · intro x sd' r' hx hr'; exact Or.inl ⟨sd', hx, hr', rfl⟩
            · intro en hen; exact Or.inl hen
            · refine tthread_advance hT.typed hins hst habs ?_ hT.locs hT.res
              exact all2_push (hall.mono (fun _ _ h => h.mono e)) habs
                (fun hkind => by
                  obtain ⟨h3, h4⟩ := hT.sub pc r hp site c n kind hins hkind
                  exact ⟨h3.mono e, h4⟩)

theorem tinit_inv (G : Graph) (sys : Sys) (reqs : List (TyId × Nat))
    (htyped : ∀ r ∈ reqs, typed G (sys.body r.1) r.1 = true) : TInv G sys (init reqs) where
  heap := fun j cd h => by simp [init] at h
  cache := fun e h => by simp [init] at h
  bind := fun x sd r h => by simp [init] at h
  lc := fun e h => by simp [init] at h
  threads := fun t th h => by
    simp only [init, List.getElem?_map] at h
    cases hr : reqs[t]? with
    | none => rw [hr] at h; cases h
    | some r =>
      rw [hr] at h
      simp only [Option.map_some, Option.some.injEq] at h
      subst h
      exact {
        typed := htyped r (List.mem_of_getElem? hr)
        stack := fun pc sub h => by simp [mkThread] at h
        sub := fun pc r h => by simp [mkThread] at h
        put := fun h => by simp [mkThread] at h
        call := fun r' h => by simp [mkThread] at h
        locs := fun loc x h => by simp [mkThread] at h
        res := fun res h => by simp [mkThread] at h }

theorem run_tinv (hmode : sys.mode = .byId) (hf : ∀ ty, sys.fails ty = failsTy G ty) (σ : List Tid) :
    ∀ {s : State}, Inv sys s → TInv G sys s → TInv G sys (run sys s σ) := by
  induction σ with
  | nil => exact fun _ h => h
  | cons t σ ih => exact fun hi ht => ih (step_inv hmode hi t) (tstep_inv hf hi ht t)

end Adaptix.Threads
