/-
  C01: the main induction (on the fuel of the dump) assembling the per-provider lemmas.
-/
import AdaptixProofs.Lemmas.MorphRTDict
import AdaptixProofs.Lemmas.MorphRTModel
import AdaptixProofs.Lemmas.MorphRTUnion

namespace Adaptix.Morph
open Adaptix.Py Adaptix.Morph.C01

/-- a fuel that works for every element of a finite list -/
theorem rt_fuel_common {α : Type} {P : Nat → α → Prop}
    (mono : ∀ a n m, n ≤ m → P n a → P m a) (l : List α) (h : ∀ a ∈ l, ∃ n, P n a) :
    ∃ N, ∀ a ∈ l, P N a := by
  induction l with
  | nil => exact ⟨0, fun a ha => by cases ha⟩
  | cons a l ih =>
    obtain ⟨n1, h1⟩ := h a (by simp)
    obtain ⟨n2, h2⟩ := ih (fun b hb => h b (by simp [hb]))
    refine ⟨max n1 n2, fun b hb => ?_⟩
    rcases List.mem_cons.1 hb with rfl | hb
    · exact mono _ _ _ (Nat.le_max_left _ _) h1
    · exact mono _ _ _ (Nat.le_max_right _ _) (h2 b hb)

theorem rt_trav_functional {j : Bool} {d a b : Val} (h1 : Trav j d a) (h2 : Trav j d b) : a = b := by
  cases j
  · simp [Trav] at h1 h2; rw [h1, h2]
  · simp [Trav] at h1 h2; rw [h1] at h2; exact Option.some.inj h2

/-- "with load fuel `m`, the loader of `T` returns `x` from the travelled dump (fuel `n`) of `x`" -/
def RtBack (W : World) (DW : DumpWorld) (cfg : Cfg) (j : Bool) (n m : Nat) (T : Ty) (x : Val) : Prop :=
  ∀ e e', dump W DW cfg n T x = .ok e → Trav j e e' → load W cfg m T e' = .ok x

theorem rt_back_mono {W : World} {DW : DumpWorld} {cfg : Cfg} {j : Bool} {n m m' : Nat} {T : Ty}
    {x : Val} (hm : m ≤ m') (h : RtBack W DW cfg j n m T x) : RtBack W DW cfg j n m' T x :=
  fun e e' h1 h2 => rt_load_mono (h e e' h1 h2) (by simp) hm

/-- the dumped and travelled forms are unique, so one fuel serves them all -/
theorem rt_back_uniform {W : World} {DW : DumpWorld} {cfg : Cfg} {j : Bool} {n : Nat} {T : Ty}
    {x : Val}
    (h : ∀ e e', dump W DW cfg n T x = .ok e → Trav j e e' → ∃ m, load W cfg m T e' = .ok x) :
    ∃ m, RtBack W DW cfg j n m T x := by
  by_cases hex : ∃ e e', dump W DW cfg n T x = .ok e ∧ Trav j e e'
  · obtain ⟨e, e', h1, h2⟩ := hex
    obtain ⟨m, hm⟩ := h e e' h1 h2
    refine ⟨m, fun a a' ha ha' => ?_⟩
    rw [h1] at ha
    cases ha
    rw [rt_trav_functional ha' h2]
    exact hm
  · exact ⟨0, fun a a' ha ha' => absurd ⟨a, a', ha, ha'⟩ hex⟩

theorem rt_loadLiteral_hit {s : Bool} {vals : List Val} {x : Val} (hm : x ∈ vals)
    (hl : isLitVal x = true) : loadLiteral s vals x = .ok x := by
  have h1 : Val.memOf x vals = true := rt_memOf_of_mem (rt_pyEq_refl_lit hl) hm
  have h2 : typedMem x vals = true := by
    simp only [typedMem, List.any_eq_true]
    exact ⟨x, hm, by simp [rt_pyEq_refl_lit hl]⟩
  unfold loadLiteral
  split <;> simp [h1, h2]

theorem rt_isNone_eq {x : Val} (h : x.isNone = true) : x = .none := by
  cases x <;> simp [Val.isNone] at h; rfl

/-- in `Optional[T]` a value that is not None is a value of `T` -/
theorem rt_optional_other {W : World} {C : Codec} (hS : ScalarRT W C) {cases : List Ty} {t : Ty}
    {x : Val} (hso : isSingleOptional cases = true) (ht : t ∈ cases) (hx : HasTy W C t x)
    (hnn : x.isNone = false) : HasTy W C (optionalOther cases) x := by
  have hnone : ∀ u, isNoneTy u = true → HasTy W C u x → False := by
    intro u hu hux
    rw [rt_isNoneTy_eq hu] at hux
    cases hux with
    | scalar hi => rw [hS.none_only x hi] at hnn; simp [Val.isNone] at hnn
  cases cases with
  | nil => simp [isSingleOptional] at hso
  | cons a l =>
    cases l with
    | nil => simp [isSingleOptional] at hso
    | cons b l =>
      cases l with
      | cons c l => simp [isSingleOptional] at hso
      | nil =>
        simp only [isSingleOptional, Bool.or_eq_true] at hso
        simp only [optionalOther]
        simp only [List.mem_cons, List.not_mem_nil, or_false] at ht
        by_cases ha : isNoneTy a = true
        · simp only [ha, if_true]
          rcases ht with rfl | rfl
          · exact (hnone _ ha hx).elim
          · exact hx
        · simp only [ha]
          have hb : isNoneTy b = true := by rcases hso with h | h; exact absurd h ha; exact h
          rcases ht with rfl | rfl
          · exact hx
          · exact (hnone _ hb hx).elim

section main
variable {W : World} {DW : DumpWorld} {C : Codec} {cfg : Cfg} {j : Bool}

/-- **the round trip, by induction on the fuel of the dump** -/
theorem rt_main (hS : ScalarRT W C) (hJ : j = true → ScalarJson W C)
    (hC : ClassesOK W DW C cfg j) :
    ∀ (n : Nat) (T : Ty) (x : Val), TyOK W DW C cfg j T → HasTy W C T x →
      ∃ m, RtBack W DW cfg j n m T x := by
  intro n
  induction n with
  | zero => intro T x _ _; exact ⟨0, fun e e' h => by simp [dump] at h⟩
  | succ n ih =>
    intro T x hT hx
    apply rt_back_uniform
    intro d d' hd htr
    cases hT with
    | scalar =>
      cases hx with
      | scalar hi =>
        simp only [dump] at hd
        refine ⟨1, ?_⟩
        simp only [load]
        cases j with
        | false =>
          obtain ⟨d0, h1, h2⟩ := hS.rt cfg.strict _ _ hi
          rw [hd] at h1; cases h1
          simp [Trav] at htr; subst htr
          exact h2
        | true => exact hJ rfl cfg.strict _ _ _ _ hi hd (by simpa [Trav] using htr)
    | any hj =>
      subst hj
      simp only [dump, Outcome.ok.injEq] at hd
      simp [Trav] at htr
      subst hd htr
      exact ⟨1, by simp [load]⟩
    | literal hl =>
      cases hx with
      | literal hv hs =>
        have hxv := rt_same_lit (hl _ hv) hs
        subst hxv
        simp only [dump, Outcome.ok.injEq] at hd
        subst hd
        have := rt_trav_lit (hl _ hv) htr
        subst this
        exact ⟨1, by simp only [load]; exact rt_loadLiteral_hit hv (hl _ hv)⟩
    | iter hel =>
      cases hx with
      | iter hxs hset =>
        rename_i xs
        obtain ⟨M, hM⟩ := rt_fuel_common (P := fun m x => RtBack W DW cfg j n m _ x)
          (fun a _ _ hm h => rt_back_mono hm h) xs (fun a ha => ih _ a hel (hxs a ha))
        refine ⟨M + 1, ?_⟩
        simp only [dump] at hd
        simp only [load]
        exact rt_iter hset hd htr (fun x hx e e' h1 h2 => hM x hx e e' h1 h2)
    | tuple hel =>
      cases hx with
      | tuple hlen hxs =>
        rename_i elems xs
        obtain ⟨M, hM⟩ := rt_fuel_common (P := fun m (p : Ty × Val) => RtBack W DW cfg j n m p.1 p.2)
          (fun a _ _ hm h => rt_back_mono hm h) (elems.zip xs)
          (fun p hp => ih _ _ (hel _ (List.of_mem_zip hp).1) (hxs p hp))
        refine ⟨M + 1, ?_⟩
        simp only [dump] at hd
        simp only [load]
        exact rt_tuple (dm := fun t => dump W DW cfg n t) (ld := fun t => load W cfg M t)
          hlen hd htr (fun p hp e e' h1 h2 => hM p hp e e' h1 h2)
    | dict hk hv hdh hdi =>
      cases hx with
      | dict hks hvs hhash hdist =>
        rename_i kvs
        obtain ⟨M1, hM1⟩ := rt_fuel_common (P := fun m (p : Val × Val) => RtBack W DW cfg j n m _ p.1)
          (fun a _ _ hm h => rt_back_mono hm h) kvs (fun p hp => ih _ _ hk (hks p hp))
        obtain ⟨M2, hM2⟩ := rt_fuel_common (P := fun m (p : Val × Val) => RtBack W DW cfg j n m _ p.2)
          (fun a _ _ hm h => rt_back_mono hm h) kvs (fun p hp => ih _ _ hv (hvs p hp))
        refine ⟨max M1 M2 + 1, ?_⟩
        simp only [dump] at hd
        simp only [load]
        have hkh : ∀ p ∈ kvs, p.1.hashable = true := fun p hp =>
          rt_hashableAll_iff.1 hhash p.1 (List.mem_map_of_mem hp)
        exact rt_dict hhash hdist
          (fun p hp e he => hdh n p.1 e (hks p hp) (hkh p hp) he)
          (fun p hp q hq e e' hne he he' => hdi n n p.1 q.1 e e' (hks p hp) (hks q hq) hne he he')
          hd htr
          (fun p hp e e' h1 h2 => rt_back_mono (Nat.le_max_left _ _) (hM1 p hp) e e' h1 h2)
          (fun p hp e e' h1 h2 => rt_back_mono (Nat.le_max_right _ _) (hM2 p hp) e e' h1 h2)
    | model =>
      cases hx with
      | model hcls hnames hfs =>
        rename_i cls fields fs
        obtain ⟨hnd, hftys⟩ := hC cls fields hcls
        have hal := rt_getField_aligned hnames hnd
        obtain ⟨M, hM⟩ := rt_fuel_common
          (P := fun m (f : Field) => ∀ v, getField f.name fs = some v → RtBack W DW cfg j n m f.ty v)
          (fun a _ _ hm h v hv => rt_back_mono hm (h v hv)) fields
          (fun f hf => by
            obtain ⟨v, hv, hmem⟩ := hal f hf
            obtain ⟨m, hm⟩ := ih f.ty v (hftys f hf) (hfs _ hmem)
            exact ⟨m, fun v' hv' => by rw [hv] at hv'; cases hv'; exact hm⟩)
        refine ⟨M + 1, ?_⟩
        simp only [dump, hcls] at hd
        simp only [load, hcls]
        exact rt_model (fd := fun f y => dump W DW cfg n f.ty y) (fl := fun f y => load W cfg M f.ty y)
          hnames hnd hd htr (fun f hf v e e' hg h1 h2 => hM f hf v hg e e' h1 h2)
    | optional hso hother hnn =>
      cases hx with
      | union htc hxt =>
        simp only [dump, rt_dumpUnion_optional hso] at hd
        cases hxn : x.isNone with
        | true =>
          have := rt_isNone_eq hxn; subst this
          simp only [Val.isNone, if_true, Outcome.ok.injEq] at hd
          subst hd
          have hd' : d'.isNone = true := by rw [rt_trav_isNone htr]; rfl
          have hd'' := rt_isNone_eq hd'
          subst hd''
          refine ⟨1, ?_⟩
          simp [load, rt_loadUnion_optional hso, Val.isNone]
        | false =>
          simp only [hxn, Bool.false_eq_true, if_false] at hd
          have hxo := rt_optional_other hS hso htc hxt hxn
          obtain ⟨m, hm⟩ := ih _ x hother hxo
          have hdn : d'.isNone = false := by rw [rt_trav_isNone htr]; exact hnn n x d hxo hxn hd
          refine ⟨m + 1, ?_⟩
          simp only [load, rt_loadUnion_optional hso, hdn, Bool.false_eq_true, if_false,
            hm d d' hd htr, rt_optWrap_ok]
    | union hso hcases hpick =>
      obtain ⟨pre, t, post, hsplit, hxt, hp, hrej⟩ := hpick x hx
      have htok : TyOK W DW C cfg j t := hcases t (by rw [hsplit]; simp)
      simp only [dump, rt_dumpUnion_general hso] at hd
      -- the picked case loads the travelled dump with some fuel, the earlier cases reject it
      have hkey : (∃ m, load W cfg m t d' = .ok x) ∧ ∀ u ∈ pre, ∃ m e, load W cfg m u d' = .err e := by
        rcases rt_dumpUnion_pick (dm := fun c y => dump W DW cfg n c y) hp with ⟨h1, ws, rfl⟩ | h1
        · rw [h1] at hd
          simp only [Outcome.ok.injEq] at hd; subst hd
          cases htok with
          | literal hl =>
            cases hxt with
            | literal hv hs =>
              have hxv := rt_same_lit (hl _ hv) hs
              subst hxv
              have := rt_trav_lit (hl _ hv) htr
              subst this
              exact ⟨⟨1, by simp only [load]; exact rt_loadLiteral_hit hv (hl _ hv)⟩,
                hrej 1 _ _ (by simp [dump]) htr⟩
        · rw [h1] at hd
          obtain ⟨m, hm⟩ := ih t x htok hxt
          exact ⟨⟨m, hm d d' hd htr⟩, hrej n d d' hd htr⟩
      obtain ⟨⟨m0, hm0⟩, hpre⟩ := hkey
      obtain ⟨M, hM⟩ := rt_fuel_common (P := fun m u => ∃ e, load W cfg m u d' = .err e)
        (fun a _ _ hm h => by obtain ⟨e, he⟩ := h; exact ⟨e, rt_load_mono he (by simp) hm⟩)
        pre (fun u hu => by obtain ⟨m, e, he⟩ := hpre u hu; exact ⟨m, e, he⟩)
      refine ⟨max m0 M + 1, ?_⟩
      simp only [load, rt_loadUnion_general hso]
      rw [hsplit]
      exact rt_loadUnion_general_hit (ld := fun c y => load W cfg (max m0 M) c y)
        (fun u hu => by
          obtain ⟨e, he⟩ := hM u hu
          exact ⟨e, rt_load_mono he (by simp) (Nat.le_max_right _ _)⟩)
        (rt_load_mono hm0 (by simp) (Nat.le_max_left _ _))

end main

end Adaptix.Morph
