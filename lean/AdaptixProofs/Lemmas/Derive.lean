/-
  Helper lemmas for `AdaptixProofs/Props/C12Derive.lean` (model: `AdaptixModel/Retort/Derive.lean`).
-/
import AdaptixModel.Retort.Derive

namespace Adaptix.Derive

theorem length_store_ge (d : Dict) (k : Key) (v : Val) : d.length ≤ (store d k v).length := by
  induction d with
  | nil => simp [store]
  | cons e d ih =>
    simp only [store]
    split <;> simp_all

theorem length_store_new (d : Dict) (k : Key) (v : Val) (h : hasKey d k = false) :
    (store d k v).length = d.length + 1 := by
  induction d with
  | nil => simp [store]
  | cons e d ih =>
    simp only [hasKey, List.any_cons, Bool.or_eq_false_iff] at h
    simp only [store, h.1]
    simp [ih (by simpa [hasKey] using h.2)]

/-- insert-only: a key that is in the dict stays in it -/
theorem hasKey_store_mono (d : Dict) (k k' : Key) (v : Val) (h : hasKey d k' = true) :
    hasKey (store d k v) k' = true := by
  induction d with
  | nil => simp [hasKey] at h
  | cons e d ih =>
    simp only [hasKey, List.any_cons, Bool.or_eq_true] at h
    simp only [store]
    split
    · rename_i hk
      rcases h with h | h
      · have : e.1 = k := by simpa using hk
        have h' : e.1 = k' := by simpa using h
        simp [hasKey, ← this, h']
      · simp only [hasKey, List.any_cons, Bool.or_eq_true]
        exact Or.inr h
    · rcases h with h | h
      · simp [hasKey, h]
      · have := ih (by simpa [hasKey] using h)
        simp only [hasKey, List.any_cons, Bool.or_eq_true]
        exact Or.inr (by simpa [hasKey] using this)

theorem run_nil (st : Strategy) (s : State) : run st s [] = s := rfl

theorem run_cons (st : Strategy) (s : State) (a : Act) (σ : List Act) :
    run st s (a :: σ) = run st (step st s a) σ := rfl

theorem run_append (st : Strategy) (s : State) (σ τ : List Act) :
    run st s (σ ++ τ) = run st (run st s σ) τ := by
  simp [run, List.foldl_append]

/-- a finished cloning thread (result or error) is not changed by anything that happens later -/
theorem run_finished (st : Strategy) (s : State) (σ : List Act) (h : s.clone.finished = true) :
    (run st s σ).clone = s.clone := by
  induction σ generalizing s with
  | nil => rfl
  | cons a σ ih =>
    rw [run_cons]
    cases a with
    | clone =>
      have hc : (step st s .clone).clone = s.clone := by
        cases hcl : s.clone <;> simp_all [step, cloneStep, Clone.finished]
      rw [ih _ (by rw [hc]; exact h), hc]
    | store k v =>
      exact ih _ h

end Adaptix.Derive
