/-
  C05 — DISABLE mode attaches no trail: the raised error is a single exception object
  with an empty trail and no sub-exceptions.
-/
import AdaptixProofs.Lemmas.MorphTrailUnion

namespace Adaptix.Morph
open Adaptix.Py

/-- no trail anywhere in the tree -/
inductive TrailNone : LErr → Prop
  | mk {cls : String} {i : Option Val} {det : List String} {ch : List LErr} :
      (∀ c ∈ ch, TrailNone c) → TrailNone (.mk cls [] i det ch)

theorem trail_none_of_flat {e : LErr} (h : e.trail = [] ∧ e.children = []) : TrailNone e := by
  obtain ⟨cls, t, i, det, ch⟩ := e
  simp only [LErr.trail, LErr.children] at h
  obtain ⟨rfl, rfl⟩ := h
  exact .mk (by simp)

theorem trail_disable_load {W : World} (hW : LeafReportsInput W) (s : Bool) :
    ∀ (n : Nat) (T : Ty) (d : Val) (e : LErr),
      load W ⟨.disable, s⟩ n T d = .err e → e.trail = [] ∧ e.children = [] := by
  intro n
  induction n with
  | zero => intro T d e h; simp [load] at h
  | succ n ih =>
    intro T d e h
    have hleaf : ∀ cls x, (LErr.leaf cls x).trail = [] ∧ (LErr.leaf cls x).children = [] :=
      fun _ _ => ⟨rfl, rfl⟩
    cases T with
    | scalar name =>
      simp only [load] at h
      obtain ⟨h1, _, h3⟩ := hW _ _ _ _ h
      exact ⟨h1, h3⟩
    | any => simp [load] at h
    | literal vals =>
      simp only [load] at h
      obtain ⟨rfl, _⟩ := trail_loadLiteral_err h
      exact hleaf _ _
    | union cases keys =>
      simp only [load] at h
      rcases trail_loadUnion_err_disable (cfg := ⟨.disable, s⟩) rfl h with rfl | ⟨c, _, hl⟩
      · exact ⟨rfl, rfl⟩
      · exact ih _ _ _ hl
    | iter f dl elem =>
      simp only [load] at h
      rcases trail_loadIter_err h with ⟨_, rfl⟩ | ⟨_, _, rfl⟩ | ⟨_, xs, _, hseq⟩
      · exact hleaf _ _
      · exact hleaf _ _
      · obtain ⟨el, hmem⟩ := trail_seqDisable_err hseq
        obtain ⟨i, x, _, _, ho⟩ := trail_mem_idxItems_map hmem
        exact ih _ _ _ ho.symm
    | tuple elems =>
      simp only [load] at h
      rcases trail_loadTuple_err h with ⟨_, rfl⟩ | ⟨_, _, rfl⟩ | ⟨_, xs, _, harity⟩
      · exact hleaf _ _
      · exact hleaf _ _
      · rcases harity with ⟨_, rfl⟩ | ⟨_, rfl⟩ | ⟨_, hseq⟩
        · exact hleaf _ _
        · exact hleaf _ _
        · rw [trail_zipApply_map (fun t x => load W ⟨.disable, s⟩ n t x)] at hseq
          obtain ⟨el, hmem⟩ := trail_seqDisable_err hseq
          obtain ⟨i, p, _, _, ho⟩ := trail_mem_idxItems_map hmem
          exact ih _ _ _ ho.symm
    | dict kT vT =>
      simp only [load] at h
      rcases trail_loadDict_err h with ⟨kvs, rfl, hseq⟩ | ⟨_, rfl⟩
      · obtain ⟨el, hmem⟩ := trail_seqDisable_err hseq
        obtain ⟨k, v, _, hcase⟩ := trail_mem_dictItems hmem
        rcases hcase with ⟨_, ho⟩ | ⟨_, ho⟩
        · exact ih _ _ _ ho.symm
        · exact ih _ _ _ ho.symm
      · exact hleaf _ _
    | model cls =>
      simp only [load] at h
      cases hc : W.classes cls with
      | none => simp [hc] at h
      | some fields =>
        simp only [hc] at h
        rcases trail_loadModel_err h with ⟨kvs, rfl, hseq⟩ | ⟨_, rfl⟩
        · obtain ⟨el, hmem⟩ := trail_seqDisable_err hseq
          rcases trail_mem_modelItems hmem with ⟨f, v, _, _, _, ho⟩ | ⟨_, ho, _⟩ | ⟨_, v, ho⟩
          · exact ih _ _ _ ho.symm
          · cases ho; exact ⟨rfl, rfl⟩
          · cases ho
        · exact hleaf _ _

end Adaptix.Morph
