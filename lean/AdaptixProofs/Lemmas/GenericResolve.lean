/-
  The resolver invariant (C16): for every class of a well-formed table the
  members computed by `_get_members_by_parents` are, after any substitution of
  the class's parameters, the declared types.
-/
import AdaptixModel.Types.Generic
import AdaptixModel.Types.GenericWf
import AdaptixProofs.Lemmas.GenericSubst
import AdaptixProofs.Lemmas.GenericTable

namespace Adaptix.Generic

/-- the arguments a base is resolved with: the written ones, or the implicit
    parameters when it is left bare -/
def effArgs (H : Hierarchy) (b : Base) : List Hint :=
  match b.args with
  | some args => args
  | none => implicitParams H b.cls

theorem implicitParams_length (H : Hierarchy) (c : Nat) :
    (implicitParams H c).length = (H.cls c).params.length := by
  simp [implicitParams]

theorem implicitParams_closed {H : Hierarchy} (hw : ImplicitClosed H) (c : Nat) :
    ∀ a ∈ implicitParams H c, a.tvs = [] := by
  intro a ha
  simp only [implicitParams, List.mem_map] at ha
  obtain ⟨v, _, rfl⟩ := ha
  cases hl : H.tvars.lookup v with
  | none => simp [anyHint, Hint.tvs]
  | some d =>
    simp only
    have hm : (v, d) ∈ H.tvars := by
      have := List.lookup_eq_some_iff.mp hl
      obtain ⟨l1, l2, h, _⟩ := this
      rw [h]; simp
    exact hw (v, d) hm

/-- `get_resolved_members(base).members[k]` in all three branches -/
theorem getResolvedWith_lookup (H : Hierarchy) (bp : Nat → Members) (b : Base) (k : Key) :
    (getResolvedWith H bp b).lookup k
      = ((bp b.cls).lookup k).map fun t => t.subst ((H.cls b.cls).params.zip (effArgs H b)) := by
  unfold getResolvedWith effArgs
  cases hb : b.args with
  | some args =>
    simp only [ofParametrizedWith, typeVarToActual]
    rw [lookup_map_val (bp b.cls) (fun _ t => parametrizeByDict _ t) k]
    simp [parametrizeByDict_eq_subst]
  | none =>
    simp only
    split
    · simp only [ofParametrizedWith, typeVarToActual]
      rw [lookup_map_val (bp b.cls) (fun _ t => parametrizeByDict _ t) k]
      simp [parametrizeByDict_eq_subst]
    · rename_i hne
      have hnil : (H.cls b.cls).params = [] := by
        simpa using hne
      simp [hnil, Hint.subst_nil]

theorem bindBase_eq {H : Hierarchy} (hw : ImplicitClosed H) (σ : Subst) (b : Base) :
    bindBase H σ b = (H.cls b.cls).params.zip ((effArgs H b).map (·.subst σ)) := by
  unfold bindBase effArgs
  cases hb : b.args with
  | some args => rfl
  | none =>
    simp only
    rw [map_subst_of_closed σ _ (implicitParams_closed hw b.cls)]

theorem effArgs_length {H : Hierarchy} (ha : ArityOk H) {c : Nat} (hc : c < H.classes.length)
    {b : Base} (hb : b ∈ origBases H c) : (effArgs H b).length = (H.cls b.cls).params.length := by
  unfold effArgs
  cases hargs : b.args with
  | some args => exact ha c hc b hb args (by simp [hargs])
  | none => exact implicitParams_length H b.cls

theorem effArgs_scoped {H : Hierarchy} (hs : ArgsScoped H) (hi : ImplicitClosed H) {c : Nat}
    (hc : c < H.classes.length) {b : Base} (hb : b ∈ origBases H c) :
    ∀ a ∈ effArgs H b, ∀ v ∈ a.tvs, v ∈ (H.cls c).params := by
  unfold effArgs
  cases hargs : b.args with
  | some args => exact fun a ha => hs c hc b hb args (by simp [hargs]) a ha
  | none =>
    intro a ha v hv
    rw [implicitParams_closed hi b.cls a ha] at hv
    simp at hv

/-! ### the chain to the defining class exists -/

theorem bindTo_total {H : Hierarchy} (hb : BasesLt H) (hm : MroCover H) :
    ∀ (F c : Nat) (σ : Subst) (d : Nat), c < F → c < H.classes.length → d ∈ (H.cls c).mro →
      ∃ τ, bindTo H F c σ d = some τ := by
  intro F
  induction F with
  | zero => intro c σ d h; omega
  | succ F ih =>
    intro c σ d hcF hcn hd
    unfold bindTo
    by_cases hcd : c = d
    · simp [hcd]
    · simp only [hcd, if_false]
      have hex : ∃ b ∈ origBases H c, d ∈ (H.cls b.cls).mro := by
        rcases hm c hcn d hd with h | h
        · exact absurd h.symm hcd
        · exact h
      obtain ⟨b0, hb0, hd0⟩ := hex
      have hsome : ((origBases H c).find? fun b => (H.cls b.cls).mro.contains d).isSome = true := by
        rw [List.find?_isSome]
        exact ⟨b0, hb0, by simpa using hd0⟩
      cases hf : (origBases H c).find? fun b => (H.cls b.cls).mro.contains d with
      | none => rw [hf] at hsome; simp at hsome
      | some b =>
        simp only
        have hbm := List.mem_of_find?_eq_some hf
        have hbd : d ∈ (H.cls b.cls).mro := by simpa using List.find?_some hf
        have hlt := hb c hcn b hbm
        exact ih b.cls _ d (by omega) (by omega) hbd

/-! ### raw storages of the annotation-merging kinds -/

theorem rawStorage_lookup {H : Hierarchy} (hk : H.kind ≠ .pydantic) (c : Nat) (k : Key) :
    (rawStorage H c).members.lookup k = annotated H c k := by
  unfold rawStorage
  cases h : H.kind <;> simp_all [mergedMembers_lookup]

theorem rawStorage_overridden_own {H : Hierarchy} (c : Nat) (k : Key)
    (h : (rawStorage H c).overridden.contains k = true) :
    ((H.cls c).ownAnn.lookup k).isSome = true := by
  unfold rawStorage at h
  rw [lookup_isSome_iff_mem_keys]
  cases hk : H.kind <;> simp_all [ownKeys]

/-- the resolver never changes the set of field ids -/
theorem byParents_lookup_isSome {H : Hierarchy} (hk : H.kind ≠ .pydantic) (f c : Nat) (k : Key) :
    ((byParents H f c).lookup k).isSome = (annotated H c k).isSome := by
  cases f with
  | zero => simp [byParents, rawStorage_lookup hk]
  | succ f =>
    simp only [byParents]
    split
    · rw [rawStorage_lookup hk]
    · rw [lookup_map_val (rawStorage H c).members (pickMember _ _) k]
      simp [rawStorage_lookup hk]

end Adaptix.Generic
