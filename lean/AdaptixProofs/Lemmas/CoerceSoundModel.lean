/-
  C14 helper lemmas: soundness of the model provider and of the whole search.
-/
import AdaptixProofs.Lemmas.CoerceSoundStruct

namespace Adaptix.Conv

variable {cfg : Cfg} {S : Sem}

theorem findSource_some {n : Nat} {sfs : List Field} {s : Field} (h : findSource n sfs = some s) :
    s ∈ sfs ∧ s.name = n := by
  unfold findSource at h
  refine ⟨List.mem_of_find?_eq_some h, ?_⟩
  have := List.find?_some h
  simpa using this

theorem findSource_none {n : Nat} {sfs : List Field} (h : findSource n sfs = none) :
    ∀ s ∈ sfs, s.name ≠ n := by
  unfold findSource at h
  intro s hs
  have := List.find?_eq_none.mp h s hs
  simpa using this

/-- the relation between destination fields and the constructed attribute list -/
inductive FieldsBuilt (cfg : Cfg) (S : Sem) : List Field → List (Nat × Val) → Prop
  | nil : FieldsBuilt cfg S [] []
  | cons {d : Field} {v : Val} {ds : List Field} {r : List (Nat × Val)} :
      HasTy cfg S d.ty v → FieldsBuilt cfg S ds r → FieldsBuilt cfg S (d :: ds) ((d.name, v) :: r)

theorem planFields_sound {rec : Ty → Ty → Answer} (hrec : RecGood cfg S rec) (hW : WorldOk cfg S)
    {dc : Nat} {da : List Ty} {dfs : List Field} (hshape : cfg.shape dc da = some dfs)
    {sfs : List Field} {fvals : List (Nat × Val)}
    (hsome : ∀ f ∈ sfs, (lookupField f.name fvals).isSome = true)
    (hty : ∀ f ∈ sfs, ∀ x, lookupField f.name fvals = some x → HasTy cfg S f.ty x) :
    ∀ (ds : List Field) (plan : List FieldPlan), (∀ d ∈ ds, d ∈ dfs) →
      planFields rec (cfg.policy.allowed dc) sfs ds = some (some plan) →
      ∃ r, runPlan (cfg.dflt dc) fvals plan = some r ∧ FieldsBuilt cfg S ds r
  | [], plan, _, h => by
    simp [planFields] at h
    subst h
    exact ⟨[], rfl, .nil⟩
  | d :: ds, plan, hmem, h => by
    unfold planFields at h
    split at h
    · -- no source field of that name
      split at h
      · cases h
      · rename_i hreq
        split at h
        · split at h
          · rename_i ps hps
            cases h
            obtain ⟨r, hr, hb⟩ := planFields_sound hrec hW hshape hsome hty ds ps
              (fun x hx => hmem x (by simp [hx])) hps
            refine ⟨(d.name, cfg.dflt dc d.name) :: r, by simp [runPlan, hr], ?_⟩
            refine .cons ?_ hb
            exact hW.defaults_ok dc da dfs d hshape (hmem d (by simp)) (by simpa using hreq)
          · rename_i r hne
            exact absurd h (hne plan)
        · cases h
    · -- linked by name
      rename_i s hs
      obtain ⟨hsmem, _⟩ := findSource_some hs
      split at h
      · rename_i c hc
        split at h
        · rename_i ps hps
          cases h
          obtain ⟨r, hr, hb⟩ := planFields_sound hrec hW hshape hsome hty ds ps
            (fun x hx => hmem x (by simp [hx])) hps
          have hx := hsome s hsmem
          cases hl : lookupField s.name fvals with
          | none => simp [hl] at hx
          | some x =>
            obtain ⟨y, hy, hyt⟩ := (hrec _ _ _ hc).1 x (hty s hsmem x hl)
            exact ⟨(d.name, y) :: r, by simp [runPlan, hl, hy, hr], .cons hyt hb⟩
        · rename_i r hne
          exact absurd h (hne plan)
      · cases h
      · cases h

theorem lookup_built {ds : List Field} {r : List (Nat × Val)} (hb : FieldsBuilt cfg S ds r)
    (hnd : (ds.map Field.name).Nodup) :
    ∀ f ∈ ds, ∃ x, lookupField f.name r = some x ∧ HasTy cfg S f.ty x := by
  induction hb with
  | nil => intro f hf; cases hf
  | @cons d pv ds r hpt _ ih =>
    intro f hf
    simp only [List.map_cons, List.nodup_cons] at hnd
    simp only [List.mem_cons] at hf
    rcases hf with rfl | hf
    · exact ⟨pv, by simp [lookupField], hpt⟩
    · have hne : ¬ (d.name = f.name) := by
        intro heq
        apply hnd.1
        rw [heq]
        exact List.mem_map.mpr ⟨f, hf, rfl⟩
      obtain ⟨x, hx, hxt⟩ := ih hnd.2 f hf
      exact ⟨x, by simp [lookupField, hne, hx], hxt⟩

theorem model_good {rec : Ty → Ty → Answer} (hrec : RecGood cfg S rec) (hW : WorldOk cfg S)
    {src dst : Ty} {c : Coercer} (h : stepModel rec cfg src dst = .ok c) : Good cfg S src dst c := by
  unfold stepModel at h
  split at h
  · rename_i sc sa dc da
    split at h
    · rename_i sfs dfs hss hds
      split at h
      · cases h
      · cases h
      · rename_i plan hplan
        cases h
        refine ⟨?_, ?_⟩
        · intro v hv
          cases hv with
          | plain hsh _ => rw [hss] at hsh; cases hsh
          | generic _ hsh _ => rw [hss] at hsh; cases hsh
          | model hsh _ hsome hty =>
            rw [hss] at hsh
            cases hsh
            obtain ⟨r, hr, hb⟩ := planFields_sound hrec hW hds hsome hty dfs plan (fun _ h => h) hplan
            refine ⟨.obj dc r, by simp [modelRun, hr], ?_⟩
            have hl := lookup_built hb (hW.shape_nodup dc da dfs hds)
            refine .model hds (hW.sub_refl dc) ?_ ?_
            · intro f hf
              obtain ⟨x, hx, _⟩ := hl f hf
              simp [hx]
            · intro f hf x hx
              obtain ⟨x', hx', hxt⟩ := hl f hf
              rw [hx] at hx'
              cases hx'
              exact hxt
        · intro hc; simp [Coercer.isAsIs] at hc
    · cases h
  · cases h

/-- one provider, given sound answers to nested requests -/
theorem step_good {rec : Ty → Ty → Answer} (hrec : RecGood cfg S rec) (hW : WorldOk cfg S)
    {src dst : Ty} {p : Prov} {c : Coercer} (h : step rec cfg src dst p = .ok c) :
    Good cfg S src dst c := by
  cases p with
  | model => exact model_good hrec hW h
  | iterable => exact iterable_good hrec h
  | dict => exact dict_good hrec h
  | optional => exact optional_good hrec h
  | unwrap => exact unwrap_good hrec h
  | sameType => exact sameType_good h
  | dstAny => exact dstAny_good h
  | unionSubcase => exact unionSubcase_good h
  | subclass => exact subclass_good hW h

/-- the whole search, for every fuel, every recipe (any order or subset of the providers),
    every policy -/
theorem provide_good (hW : WorldOk cfg S) : ∀ n, RecGood cfg S (provide cfg n)
  | 0 => by intro s d c h; simp [provide] at h
  | n + 1 => by
    intro s d c h
    unfold provide at h
    obtain ⟨p, _, hp⟩ := runRecipe_ok h
    exact step_good (provide_good hW n) hW hp

end Adaptix.Conv
