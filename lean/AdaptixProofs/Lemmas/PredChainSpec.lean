/-
  C10 — the relational reading of the specification function `chainFrom` (`AdaptixModel/Pred/Spec.lean`):
  walking down the tail, the j-th element holds on the stack cut after the j-th location of the tail.
-/
import AdaptixModel.Pred.Spec

namespace Adaptix.Pred

theorem chainFrom_iff : ∀ (fs : List (LocStack → Bool)) (pre tail : LocStack),
    chainFrom fs pre tail = true ↔
      tail.length = fs.length ∧ ∀ j (h : j < fs.length), fs[j] (pre ++ tail.take (j + 1)) = true := by
  intro fs
  induction fs with
  | nil =>
    intro pre tail
    cases tail with
    | nil => simp [chainFrom]
    | cons a t => simp [chainFrom]
  | cons f fs ih =>
    intro pre tail
    cases tail with
    | nil => simp [chainFrom]
    | cons loc t =>
      simp only [chainFrom, Bool.and_eq_true, ih, List.length_cons, Nat.add_right_cancel_iff]
      constructor
      · rintro ⟨h0, hl, hall⟩
        refine ⟨hl, fun j hj => ?_⟩
        cases j with
        | zero => simpa using h0
        | succ k =>
          have := hall k (by omega)
          simpa [List.append_assoc] using this
      · rintro ⟨hl, hall⟩
        refine ⟨by simpa using hall 0 (by omega), hl, fun j hj => ?_⟩
        have := hall (j + 1) (by omega)
        simpa [List.append_assoc] using this

end Adaptix.Pred
