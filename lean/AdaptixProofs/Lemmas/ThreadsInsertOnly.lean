import AdaptixProofs.Lemmas.ThreadsProgress

/-
  C12 — the shared caches are INSERT-ONLY maps, whatever the threads do and however their requests end.

  `BuiltinMediator.cached_call` is a check-then-read: `if key in self._call_cache: return self._call_cache[key]`.
  Between the two statements any other thread may run any number of actions - including a whole request that FAILS
  (`stepRaise`: `_facade_provide` raises ProviderNotFoundError).  The read can only be safe if no action of any
  thread ever removes an entry.  Here this is proved for the model (stubs compared by identity):

    * every atomic action leaves each of the two caches as it is or performs one dict store on it (`step_caches`);
    * a key that is in the call cache stays in it along every schedule (`run_ccHas`), the same for the loader
      cache (`run_lcHas`);
    * hence a thread that sits between `key in cache` and `cache[key]` always finds its key (`GetOk` is an
      invariant: `run_getOk`): the `KeyError` of the read is unreachable, and the fall-back of `stepInstr` in the
      sub-state `.get` (which only totalises the function) is dead code.
-/
namespace Adaptix.Threads

/-- `key in cache` for the call cache -/
def ccHas (m : Mode) (stubs : List StubData) (cc : List (Key × Ref)) (k : Key) : Bool :=
  cc.any (fun e => keyEq m stubs e.1 k)

/-- `tp in cache` for the loader cache -/
def lcHas (lc : List (TyId × Ref)) (ty : TyId) : Bool := lc.any (fun e => e.1 == ty)

theorem ccLookup_isSome (m : Mode) (stubs : List StubData) (k : Key) : ∀ cc : List (Key × Ref),
    (ccLookup m stubs cc k).isSome = ccHas m stubs cc k
  | [] => rfl
  | e :: es => by
    have ih := ccLookup_isSome m stubs k es
    unfold ccLookup ccHas at ih ⊢
    simp only [List.find?_cons, List.any_cons]
    cases h : keyEq m stubs e.1 k with
    | true => simp
    | false => simpa using ih

theorem lcLookup_isSome (ty : TyId) : ∀ lc : List (TyId × Ref), (lcLookup lc ty).isSome = lcHas lc ty
  | [] => rfl
  | e :: es => by
    have ih := lcLookup_isSome ty es
    unfold lcLookup lcHas at ih ⊢
    simp only [List.find?_cons, List.any_cons]
    cases h : e.1 == ty with
    | true => simp
    | false => simpa using ih

/-! ### with stubs compared by identity, key equality does not look at the stub table -/

theorem refEq_byId_stubs (st st' : List StubData) (a b : Ref) : refEq .byId st a b = refEq .byId st' a b := by
  cases a <;> cases b <;> rfl

theorem argsEq_byId_stubs (st st' : List StubData) : ∀ as bs : List Ref, argsEq .byId st as bs = argsEq .byId st' as bs
  | [], [] => rfl
  | [], _ :: _ => rfl
  | _ :: _, [] => rfl
  | a :: as, b :: bs => by
    simp only [argsEq]
    rw [refEq_byId_stubs st st' a b, argsEq_byId_stubs st st' as bs]

theorem keyEq_byId_stubs (st st' : List StubData) (k k' : Key) : keyEq .byId st k k' = keyEq .byId st' k k' := by
  simp only [keyEq]
  rw [argsEq_byId_stubs st st']

theorem ccHas_byId (st st' : List StubData) (cc : List (Key × Ref)) (k : Key) :
    ccHas .byId st cc k = ccHas .byId st' cc k := by
  unfold ccHas
  congr 1
  funext e
  exact keyEq_byId_stubs st st' e.1 k

/-! ### a dict store never removes a key -/

theorem ccHas_ccPut {m : Mode} {stubs : List StubData} (k' : Key) (v : Ref) (k : Key) :
    ∀ cc : List (Key × Ref), ccHas m stubs cc k = true → ccHas m stubs (ccPut m stubs cc k' v) k = true
  | [], h => by simp [ccHas] at h
  | e :: es, h => by
    unfold ccPut
    split
    · -- the key object stays, only the value is replaced
      simpa [ccHas] using h
    · simp only [ccHas, List.any_cons, Bool.or_eq_true] at h ⊢
      rcases h with h | h
      · exact Or.inl h
      · exact Or.inr (ccHas_ccPut k' v k es h)

theorem lcHas_lcPut (ty' : TyId) (v : Ref) (ty : TyId) :
    ∀ lc : List (TyId × Ref), lcHas lc ty = true → lcHas (lcPut lc ty' v) ty = true
  | [], h => by simp [lcHas] at h
  | e :: es, h => by
    unfold lcPut
    split
    · simpa [lcHas] using h
    · simp only [lcHas, List.any_cons, Bool.or_eq_true] at h ⊢
      rcases h with h | h
      · exact Or.inl h
      · exact Or.inr (lcHas_lcPut ty' v ty es h)

/-! ### what one atomic action does to the two caches -/

theorem created_caches {s s1 : State} {t : Tid} {site : Site} {const : Nat} {args : List Ref} {kind : Kind}
    {r : Ref} (h : created s t site const args kind = some (s1, r)) :
    s1.callCache = s.callCache ∧ s1.loaderCache = s.loaderCache ∧ s1.stubs = s.stubs := by
  cases kind <;> simp [created] at h <;> (obtain ⟨h1, _⟩ := h; rw [← h1]; exact ⟨rfl, rfl, rfl⟩)

/-- the shape of the caches after one action: untouched, or one store -/
structure CacheStep (sys : Sys) (s s' : State) : Prop where
  cc : s'.callCache = s.callCache ∨ ∃ k v, s'.callCache = ccPut sys.mode s.stubs s.callCache k v
  lc : s'.loaderCache = s.loaderCache ∨ ∃ ty r, s'.loaderCache = lcPut s.loaderCache ty r

theorem CacheStep.same {sys : Sys} {s s' : State} (h1 : s'.callCache = s.callCache)
    (h2 : s'.loaderCache = s.loaderCache) : CacheStep sys s s' := ⟨Or.inl h1, Or.inl h2⟩

/-- **every atomic action of every thread leaves each cache alone or performs one dict store on it** - no action
    removes an entry; in particular not the failure of a request (`stepRaise`) -/
theorem step_caches (sys : Sys) (s : State) (t : Tid) : CacheStep sys s (step sys s t) := by
  unfold step
  cases hth : s.threads[t]? with
  | none => exact .same rfl rfl
  | some th =>
    simp only
    cases hp : th.phase with
    | done => exact .same rfl rfl
    | idle =>
      simp only [stepIdle]
      cases lcLookup s.loaderCache th.ty <;> exact .same rfl rfl
    | put =>
      simp only
      split
      · exact .same rfl rfl
      · exact ⟨Or.inl rfl, Or.inr ⟨_, _, rfl⟩⟩
    | call r => exact .same rfl rfl
    | run pc sub =>
      simp only
      cases hins : (sys.body th.ty)[pc]? with
      | none => exact .same rfl rfl
      | some ins =>
        simp only
        cases ins with
        | stubGet loc =>
          simp only [stepInstr]
          cases lookupLoc th.locToStub loc <;> exact .same rfl rfl
        | stubBind loc =>
          simp only [stepInstr]
          cases lookupLoc th.locToStub loc <;> exact .same rfl rfl
        | cached site const nargs kind =>
          simp only [stepInstr]
          have hmiss : ∀ (l : Label),
              CacheStep sys s (match created s t site const (th.stack.take nargs).reverse kind with
                | none =>
                  emit (setThread s t { th with phase := nextPhase (sys.body th.ty).length (pc + 1),
                                                 stack := th.stack.drop nargs }) l
                | some (s', r) => emit (setThread s' t { th with phase := .run pc (.store r) }) l) := by
            intro l
            cases hcr : created s t site const (th.stack.take nargs).reverse kind with
            | none => exact .same rfl rfl
            | some p =>
              obtain ⟨s1, r⟩ := p
              obtain ⟨h1, h2, _⟩ := created_caches hcr
              exact .same h1 h2
          cases sub with
          | look =>
            simp only
            cases ccLookup sys.mode s.stubs s.callCache
                { site := site, const := const, aux := kind.isAux, args := (th.stack.take nargs).reverse } with
            | some v => exact .same rfl rfl
            | none => exact hmiss _
          | get =>
            simp only
            cases ccLookup sys.mode s.stubs s.callCache
                { site := site, const := const, aux := kind.isAux, args := (th.stack.take nargs).reverse } with
            | some v => exact .same rfl rfl
            | none => exact hmiss _
          | store r => exact ⟨Or.inr ⟨_, _, rfl⟩, Or.inl rfl⟩

/-- a key of the call cache survives every atomic action -/
theorem step_ccHas {sys : Sys} (hmode : sys.mode = .byId) (s : State) (t : Tid) (k : Key)
    (h : ccHas .byId s.stubs s.callCache k = true) :
    ccHas .byId (step sys s t).stubs (step sys s t).callCache k = true := by
  rw [ccHas_byId _ s.stubs]
  rcases (step_caches sys s t).cc with h1 | ⟨k', v, h1⟩
  · rw [h1]; exact h
  · rw [h1, hmode]; exact ccHas_ccPut k' v k _ h

theorem step_lcHas (sys : Sys) (s : State) (t : Tid) (ty : TyId) (h : lcHas s.loaderCache ty = true) :
    lcHas (step sys s t).loaderCache ty = true := by
  rcases (step_caches sys s t).lc with h1 | ⟨ty', v, h1⟩
  · rw [h1]; exact h
  · rw [h1]; exact lcHas_lcPut ty' v ty _ h

/-- ... and every schedule -/
theorem run_ccHas {sys : Sys} (hmode : sys.mode = .byId) (k : Key) : ∀ (σ : List Tid) (s : State),
    ccHas .byId s.stubs s.callCache k = true →
    ccHas .byId (run sys s σ).stubs (run sys s σ).callCache k = true
  | [], _, h => h
  | t :: σ, s, h => run_ccHas hmode k σ (step sys s t) (step_ccHas hmode s t k h)

theorem run_lcHas (sys : Sys) (ty : TyId) : ∀ (σ : List Tid) (s : State),
    lcHas s.loaderCache ty = true → lcHas (run sys s σ).loaderCache ty = true
  | [], _, h => h
  | t :: σ, s, h => run_lcHas sys ty σ (step sys s t) (step_lcHas sys s t ty h)

/-! ### the read after the check -/

/-- the key of the `cached_call` a thread is executing at `pc` -/
def keyAt (sys : Sys) (th : Thread) (pc : Nat) : Option Key :=
  match (sys.body th.ty)[pc]? with
  | some (.cached site const nargs kind) =>
    some { site := site, const := const, aux := kind.isAux, args := (th.stack.take nargs).reverse }
  | _ => none

/-- every thread that has seen `key in self._call_cache` and is about to run `return self._call_cache[key]`
    finds its key -/
def GetOk (sys : Sys) (s : State) : Prop :=
  ∀ (t : Tid) (th : Thread) (pc : Nat) (k : Key), s.threads[t]? = some th → th.phase = .run pc .get →
    keyAt sys th pc = some k → ccHas sys.mode s.stubs s.callCache k = true

theorem nextPhase_ne_get (len pc pc' : Nat) : nextPhase len pc ≠ .run pc' .get := by
  unfold nextPhase; split <;> simp

/-- the only way into the sub-state `.get` is the check that has just found the key; that action changes nothing
    shared -/
theorem step_self_get (sys : Sys) {s : State} {t : Tid} {th : Thread} (hth : s.threads[t]? = some th) :
    ∃ th', (step sys s t).threads[t]? = some th' ∧
      ∀ pc, th'.phase = .run pc .get →
        (step sys s t).callCache = s.callCache ∧ (step sys s t).stubs = s.stubs ∧
        ∀ k, keyAt sys th' pc = some k → ccHas sys.mode s.stubs s.callCache k = true := by
  have hlt := lt_length_of_getElem? hth
  have hset : ∀ (s1 : State) (th' : Thread) (l : Label), s1.threads = s.threads →
      (emit (setThread s1 t th') l).threads[t]? = some th' := by
    intro s1 th' l h1
    simp only [emit_threads, setThread_threads, h1, List.getElem?_set]
    simp [hlt]
  unfold step
  rw [hth]
  simp only
  cases hp : th.phase with
  | done => exact ⟨th, hth, fun pc h => by rw [hp] at h; cases h⟩
  | idle =>
    simp only [stepIdle]
    cases lcLookup s.loaderCache th.ty with
    | some r => exact ⟨_, hset _ _ _ rfl, fun pc h => by cases h⟩
    | none => exact ⟨_, hset _ _ _ rfl, fun pc h => absurd h (nextPhase_ne_get _ _ _)⟩
  | put =>
    simp only
    split
    · exact ⟨_, hset _ _ _ rfl, fun pc h => by cases h⟩
    · exact ⟨_, hset _ _ _ rfl, fun pc h => by cases h⟩
  | call r => exact ⟨_, hset _ _ _ rfl, fun pc h => by cases h⟩
  | run pc sub =>
    simp only
    cases hins : (sys.body th.ty)[pc]? with
    | none => exact ⟨_, hset _ _ _ rfl, fun pc h => by cases h⟩
    | some ins =>
      simp only
      cases ins with
      | stubGet loc =>
        simp only [stepInstr]
        cases lookupLoc th.locToStub loc <;>
          exact ⟨_, hset _ _ _ rfl, fun pc h => absurd h (nextPhase_ne_get _ _ _)⟩
      | stubBind loc =>
        simp only [stepInstr]
        cases lookupLoc th.locToStub loc <;>
          exact ⟨_, hset _ _ _ rfl, fun pc h => absurd h (nextPhase_ne_get _ _ _)⟩
      | cached site const nargs kind =>
        simp only [stepInstr]
        have hmiss : ∀ (l : Label),
            ∃ th', (match created s t site const (th.stack.take nargs).reverse kind with
              | none =>
                emit (setThread s t { th with phase := nextPhase (sys.body th.ty).length (pc + 1),
                                               stack := th.stack.drop nargs }) l
              | some (s', r) => emit (setThread s' t { th with phase := .run pc (.store r) }) l).threads[t]? =
                some th' ∧ ∀ pc', th'.phase ≠ .run pc' .get := by
          intro l
          cases hcr : created s t site const (th.stack.take nargs).reverse kind with
          | none => exact ⟨_, hset _ _ _ rfl, fun pc' h => absurd h (nextPhase_ne_get _ _ _)⟩
          | some p =>
            obtain ⟨s1, r⟩ := p
            exact ⟨_, hset _ _ _ (created_threads hcr), fun pc' h => by cases h⟩
        cases sub with
        | look =>
          simp only
          cases hl : ccLookup sys.mode s.stubs s.callCache
              { site := site, const := const, aux := kind.isAux, args := (th.stack.take nargs).reverse } with
          | some v =>
            refine ⟨_, hset _ _ _ rfl, fun pc' h => ⟨rfl, rfl, fun k hk => ?_⟩⟩
            cases h
            simp only [keyAt, hins] at hk
            cases hk
            rw [← ccLookup_isSome, hl]; rfl
          | none =>
            obtain ⟨th', h1, h2⟩ := hmiss (.ccContains t site (th.stack.take nargs).reverse false)
            exact ⟨th', h1, fun pc' h => absurd h (h2 pc')⟩
        | get =>
          simp only
          cases hl : ccLookup sys.mode s.stubs s.callCache
              { site := site, const := const, aux := kind.isAux, args := (th.stack.take nargs).reverse } with
          | some v => exact ⟨_, hset _ _ _ rfl, fun pc' h => absurd h (nextPhase_ne_get _ _ _)⟩
          | none =>
            obtain ⟨th', h1, h2⟩ := hmiss (.ccContains t site (th.stack.take nargs).reverse false)
            exact ⟨th', h1, fun pc' h => absurd h (h2 pc')⟩
        | store r => exact ⟨_, hset _ _ _ rfl, fun pc' h => absurd h (nextPhase_ne_get _ _ _)⟩

/-- `GetOk` is preserved by every atomic action of every thread -/
theorem step_getOk {sys : Sys} (hmode : sys.mode = .byId) {s : State} (h : GetOk sys s) (t' : Tid) :
    GetOk sys (step sys s t') := by
  intro t th pc k hth hp hk
  rw [hmode]
  by_cases htt : t' = t
  · subst htt
    cases hold : s.threads[t']? with
    | none =>
      have : (step sys s t').threads[t']? = none := by unfold step; rw [hold]; exact hold
      rw [this] at hth; cases hth
    | some th0 =>
      obtain ⟨th', h1, h2⟩ := step_self_get sys hold
      rw [hth] at h1
      cases h1
      obtain ⟨hcc, hst, hkey⟩ := h2 pc hp
      rw [hcc, hst, ← hmode]
      exact hkey k hk
  · have hsame : s.threads[t]? = some th := by rw [← step_other sys htt]; exact hth
    have := h t th pc k hsame hp hk
    rw [hmode] at this
    exact step_ccHas hmode s t' k this

theorem init_getOk (sys : Sys) (reqs : List (TyId × Nat)) : GetOk sys (init reqs) := by
  intro t th pc k hth hp _
  simp only [init, List.getElem?_map] at hth
  cases hr : reqs[t]? with
  | none => rw [hr] at hth; cases hth
  | some r =>
    rw [hr] at hth
    simp only [Option.map_some, Option.some.injEq] at hth
    subst hth
    simp [mkThread] at hp

theorem run_getOk {sys : Sys} (hmode : sys.mode = .byId) : ∀ (σ : List Tid) {s : State}, GetOk sys s →
    GetOk sys (run sys s σ)
  | [], _, h => h
  | t :: σ, _, h => run_getOk hmode σ (step_getOk hmode h t)

end Adaptix.Threads
