/-
  Types whose loaded values are always hashable (so `set(...)` / `result[key] = …`
  cannot raise TypeError), and the proof of that fact.
-/
import AdaptixModel.Morph.Load
import AdaptixProofs.Lemmas.MorphEscape

namespace Adaptix.Morph
open Adaptix.Py

/-- the kinds a Literal may list in this model: None / bool / int / str -/
def isPlainVal : Val → Bool
  | .none => true
  | .bool _ => true
  | .int _ => true
  | .str _ => true
  | _ => false

mutual
  /-- loaded values of this type are hashable (`sh` says it for the scalars) -/
  def Ty.hashOk (sh : String → Bool) : Ty → Bool
    | .scalar s => sh s
    | .any => false
    | .literal vals => vals.all isPlainVal
    | .union cs _ => Ty.hashOkAll sh cs
    | .iter f _ e => (f == .tuple || f == .frozenset) && Ty.hashOk sh e
    | .tuple es => Ty.hashOkAll sh es
    | .dict _ _ => false
    | .model _ => false
  def Ty.hashOkAll (sh : String → Bool) : List Ty → Bool
    | [] => true
    | t :: ts => Ty.hashOk sh t && Ty.hashOkAll sh ts
end

theorem Ty.hashOkAll_mem {sh : String → Bool} {ts : List Ty} (h : Ty.hashOkAll sh ts = true) :
    ∀ t ∈ ts, Ty.hashOk sh t = true := by
  induction ts with
  | nil => simp
  | cons a rest ih =>
    simp only [Ty.hashOkAll, Bool.and_eq_true] at h
    intro t ht
    simp at ht
    rcases ht with rfl | ht
    · exact h.1
    · exact ih h.2 t ht

theorem hashableAll_iff (xs : List Val) : Val.hashableAll xs = true ↔ ∀ x ∈ xs, x.hashable = true := by
  induction xs with
  | nil => simp [Val.hashableAll]
  | cons a rest ih => simp [Val.hashableAll, ih]

theorem hashableAll_dedup (xs : List Val) (h : Val.hashableAll xs = true) :
    Val.hashableAll (Val.dedup xs) = true := by
  induction xs with
  | nil => simpa [Val.dedup] using h
  | cons a rest ih =>
    rw [hashableAll_iff] at h ⊢
    have hr : Val.hashableAll rest = true := (hashableAll_iff rest).2 (fun x hx => h x (by simp [hx]))
    have ihr := (hashableAll_iff _).1 (ih hr)
    intro x hx
    simp only [Val.dedup, List.mem_cons, List.mem_filter] at hx
    rcases hx with rfl | ⟨hx, _⟩
    · exact h _ (by simp)
    · exact ihr x hx

/-- `==` with a None/bool/int/str value is only true for hashable data -/
theorem pyEq_plain_hashable (v d : Val) (hv : isPlainVal v = true) (h : Val.pyEq v d = true) :
    d.hashable = true := by
  cases v <;> simp [isPlainVal] at hv <;> cases d <;> simp_all [Val.pyEq, Val.hashable]

theorem pyEq_plain_hashable' (v d : Val) (hv : isPlainVal v = true) (h : Val.pyEq d v = true) :
    d.hashable = true := by
  cases v <;> simp [isPlainVal] at hv <;> cases d <;> simp_all [Val.pyEq, Val.hashable]

theorem memOf_iff (d : Val) (vals : List Val) : Val.memOf d vals = true ↔ ∃ v ∈ vals, Val.pyEq d v = true := by
  induction vals with
  | nil => simp [Val.memOf]
  | cons a rest ih =>
    rw [Val.memOf]
    simp [ih]

theorem loadLiteral_hashable (strict : Bool) (vals : List Val) (d v : Val)
    (hp : vals.all isPlainVal = true) (h : loadLiteral strict vals d = .ok v) : v.hashable = true := by
  unfold loadLiteral at h
  by_cases hs : (strict && boolSensitive vals) = true
  · simp only [hs, ↓reduceIte] at h
    by_cases hit : typedMem d vals = true
    · simp only [hit, ↓reduceIte, Outcome.ok.injEq] at h
      subst h
      simp only [typedMem, List.any_eq_true, Bool.and_eq_true] at hit
      obtain ⟨l, hl, _, heq⟩ := hit
      exact pyEq_plain_hashable l d (List.all_eq_true.1 hp l hl) heq
    · simp [hit] at h
  · have hs' : (strict && boolSensitive vals) = false := by simpa using hs
    simp only [hs'] at h
    by_cases hit : Val.memOf d vals = true
    · simp [hit] at h
      subst h
      obtain ⟨l, hl, heq⟩ := (memOf_iff d vals).1 hit
      exact pyEq_plain_hashable' l d (List.all_eq_true.1 hp l hl) heq
    · simp [hit] at h

end Adaptix.Morph
