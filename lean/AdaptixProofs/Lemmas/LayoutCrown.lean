/-
  Helper lemmas about the crown builder (C03): ordering of paths, `groupRuns`, and the placement
  theorem — the leaves of the built crown are exactly the given (path, leaf) pairs.
-/
import AdaptixModel.Layout.Crown

namespace Adaptix.Layout

/-! ### the order on path elements and paths -/

theorem keyLe_total (a b : Key) : keyLe a b = true ∨ keyLe b a = true := by
  cases a <;> cases b <;> simp [keyLe]
  · exact String.le_total _ _
  · omega

theorem keyLe_trans {a b c : Key} (h1 : keyLe a b = true) (h2 : keyLe b c = true) : keyLe a c = true := by
  cases a <;> cases b <;> cases c <;> simp_all [keyLe]
  · exact String.le_trans h1 h2
  · omega

theorem keyLe_antisymm {a b : Key} (h1 : keyLe a b = true) (h2 : keyLe b a = true) : a = b := by
  cases a <;> cases b <;> simp_all [keyLe]
  · exact String.le_antisymm h1 h2
  · omega

theorem pathLe_trans : ∀ {x y z : Path}, pathLe x y = true → pathLe y z = true → pathLe x z = true
  | [], _, _, _, _ => by simp [pathLe]
  | _ :: _, [], _, h1, _ => by simp [pathLe] at h1
  | _ :: _, _ :: _, [], _, h2 => by simp [pathLe] at h2
  | a :: r, b :: t, c :: u, h1, h2 => by
    simp only [pathLe] at h1 h2 ⊢
    by_cases hab : a = b
    · subst hab
      simp only [↓reduceIte] at h1
      by_cases hac : a = c
      · subst hac
        simp only [↓reduceIte] at h2 ⊢
        exact pathLe_trans h1 h2
      · simpa [hac] using h2
    · simp only [hab, ↓reduceIte] at h1
      by_cases hbc : b = c
      · subst hbc
        simp [hab, h1]
      · simp only [hbc, ↓reduceIte] at h2
        have hac : a ≠ c := by
          intro h
          subst h
          exact hab (keyLe_antisymm h1 h2)
        simp [hac, keyLe_trans h1 h2]

theorem pathLe_total : ∀ (x y : Path), pathLe x y = true ∨ pathLe y x = true
  | [], _ => by simp [pathLe]
  | _ :: _, [] => by simp [pathLe]
  | a :: r, b :: t => by
    simp only [pathLe]
    by_cases hab : a = b
    · subst hab
      simpa using pathLe_total r t
    · have hba : b ≠ a := fun h => hab h.symm
      simpa [hab, hba] using keyLe_total a b

/-- the input of `_build_crown` after `paths_with_leaves.sort(key=lambda x: x.path)` -/
theorem sorted_leaves (leaves : List (Path × Leaf)) :
    (leaves.mergeSort fun a b => pathLe a.1 b.1).Pairwise (fun a b => pathLe a.1 b.1 = true) := by
  apply List.pairwise_mergeSort
  · intro a b c h1 h2
    exact pathLe_trans h1 h2
  · intro a b
    simpa using pathLe_total a.1 b.1

theorem mem_sorted_leaves (leaves : List (Path × Leaf)) (x : Path × Leaf) :
    x ∈ (leaves.mergeSort fun a b => pathLe a.1 b.1) ↔ x ∈ leaves :=
  (List.mergeSort_perm leaves _).mem_iff

/-! ### `splitHeads` and `groupRuns` -/

theorem splitHeads_eq : ∀ (items : List (Path × Leaf)) (hs : List (Key × (Path × Leaf))),
    splitHeads items = some hs → items = hs.map fun x => (x.1 :: x.2.1, x.2.2)
  | [], hs, h => by simp [splitHeads] at h; simp [← h]
  | ([], l) :: r, hs, h => by simp [splitHeads] at h
  | (k :: p, l) :: r, hs, h => by
    simp only [splitHeads, Option.map_eq_some_iff] at h
    obtain ⟨t, ht, rfl⟩ := h
    simp [splitHeads_eq r t ht]

/-- concatenating the runs gives the list back -/
theorem groupRuns_flatten {α : Type} : ∀ (l : List (Key × α)),
    (groupRuns l).flatMap (fun kg => kg.2.map fun a => (kg.1, a)) = l
  | [] => rfl
  | (k, a) :: r => by
    have ih := groupRuns_flatten r
    simp only [groupRuns]
    split
    · rename_i k' g gs heq
      rw [heq] at ih
      split
      · rename_i hk
        subst hk
        simpa using ih
      · simpa using ih
    · rename_i heq
      rw [heq] at ih
      simp at ih
      simp [ih]

theorem mem_groupRuns_iff {α : Type} (l : List (Key × α)) (k : Key) (a : α) :
    (k, a) ∈ l ↔ ∃ g, (k, g) ∈ groupRuns l ∧ a ∈ g := by
  conv => lhs; rw [← groupRuns_flatten l]
  simp only [List.mem_flatMap, List.mem_map, Prod.mk.injEq]
  constructor
  · rintro ⟨⟨k', g⟩, hm, a', ha', rfl, rfl⟩
    exact ⟨g, hm, ha'⟩
  · rintro ⟨g, hm, ha⟩
    exact ⟨(k, g), hm, a, ha, rfl, rfl⟩

/-- every run is non-empty -/
theorem groupRuns_ne_nil {α : Type} : ∀ (l : List (Key × α)) (k : Key) (g : List α),
    (k, g) ∈ groupRuns l → g ≠ []
  | [], k, g, h => by simp [groupRuns] at h
  | (k0, a) :: r, k, g, h => by
    simp only [groupRuns] at h
    split at h
    · rename_i k' g' gs heq
      split at h
      · simp only [List.mem_cons, Prod.mk.injEq] at h
        rcases h with ⟨_, rfl⟩ | h
        · simp
        · exact groupRuns_ne_nil r k g (by rw [heq]; simp [h])
      · simp only [List.mem_cons, Prod.mk.injEq] at h
        rcases h with ⟨_, rfl⟩ | h
        · simp
        · exact groupRuns_ne_nil r k g (by rw [heq]; simpa using h)
    · simp at h
      simp [h.2]

theorem groupRuns_key_mem {α : Type} (l : List (Key × α)) (k : Key) (g : List α) (h : (k, g) ∈ groupRuns l) :
    ∃ a, (k, a) ∈ l := by
  have hne := groupRuns_ne_nil l k g h
  cases g with
  | nil => exact absurd rfl hne
  | cons a t => exact ⟨a, (mem_groupRuns_iff l k a).mpr ⟨a :: t, h, by simp⟩⟩

/-- the heads of a sorted list of paths: equal, or in `keyLe` order -/
def KeySorted {α : Type} (l : List (Key × α)) : Prop :=
  l.Pairwise fun x y => x.1 = y.1 ∨ keyLe x.1 y.1 = true

/-- strictly increasing keys -/
def StrictKeys (ks : List Key) : Prop :=
  ks.Pairwise fun a b => a ≠ b ∧ keyLe a b = true

/-- in a sorted list equal keys are adjacent: the keys of the runs are strictly increasing -/
theorem groupRuns_strict {α : Type} : ∀ (l : List (Key × α)), KeySorted l →
    StrictKeys ((groupRuns l).map (·.1))
  | [], _ => by simp [groupRuns, StrictKeys]
  | (k, a) :: r, hs => by
    unfold KeySorted at hs
    rw [List.pairwise_cons] at hs
    have ih := groupRuns_strict r hs.2
    simp only [groupRuns]
    split
    · rename_i k' g gs heq
      rw [heq] at ih
      split
      · rename_i hk
        subst hk
        simpa using ih
      · rename_i hk
        simp only [List.map_cons] at ih ⊢
        unfold StrictKeys at ih ⊢
        rw [List.pairwise_cons]
        refine ⟨?_, ih⟩
        rw [List.pairwise_cons] at ih
        have hkk' : keyLe k k' = true := by
          obtain ⟨a', ha'⟩ := groupRuns_key_mem r k' g (by rw [heq]; simp)
          rcases hs.1 (k', a') ha' with h | h
          · exact absurd h hk
          · exact h
        intro k'' hk''
        simp only [List.mem_cons, List.mem_map] at hk''
        rcases hk'' with rfl | ⟨⟨k3, g3⟩, hm, rfl⟩
        · exact ⟨hk, hkk'⟩
        · obtain ⟨hne, hle⟩ := ih.1 k3 (List.mem_map.mpr ⟨(k3, g3), hm, rfl⟩)
          obtain ⟨a3, ha3⟩ := groupRuns_key_mem r k3 g3 (by rw [heq]; simp [hm])
          have hk3 : k ≠ k3 := by
            intro h
            subst h
            exact hk (keyLe_antisymm hkk' hle)
          rcases hs.1 (k3, a3) ha3 with h | h
          · exact absurd h hk3
          · exact ⟨hk3, h⟩
    · simp [StrictKeys]

/-- a run keeps the order of the list -/
theorem groupRuns_sublist {α : Type} : ∀ (l : List (Key × α)) (k : Key) (g : List α),
    (k, g) ∈ groupRuns l → (g.map fun a => (k, a)).Sublist l
  | [], k, g, h => by simp [groupRuns] at h
  | (k0, a) :: r, k, g, h => by
    simp only [groupRuns] at h
    split at h
    · rename_i k' g' gs heq
      split at h
      · rename_i hk
        subst hk
        simp only [List.mem_cons, Prod.mk.injEq] at h
        rcases h with ⟨rfl, rfl⟩ | h
        · have := groupRuns_sublist r k g' (by rw [heq]; simp)
          simpa using this.cons₂ (k, a)
        · exact (groupRuns_sublist r k g (by rw [heq]; simp [h])).cons _
      · simp only [List.mem_cons, Prod.mk.injEq] at h
        rcases h with ⟨rfl, rfl⟩ | h
        · simp
        · exact (groupRuns_sublist r k g (by rw [heq]; simpa using h)).cons _
    · simp at h
      obtain ⟨rfl, rfl⟩ := h
      simp

/-! ### strictly increasing naturals ending at `n - 1` are `0, 1, …, n - 1` -/

theorem strict_nat_lower : ∀ (ks : List Nat), ks.Pairwise (· < ·) → ∀ (i : Nat) (h : i < ks.length),
    ks[0]'(by omega) + i ≤ ks[i]
  | [], _, i, h => by simp at h
  | a :: t, hp, 0, _ => by simp
  | a :: t, hp, i + 1, h => by
    rw [List.pairwise_cons] at hp
    have hi : i < t.length := by simpa using h
    have := strict_nat_lower t hp.2 i hi
    have h0 : a < t[0]'(by omega) := hp.1 _ (List.getElem_mem _)
    simp only [List.getElem_cons_succ, List.getElem_cons_zero]
    omega

theorem strict_nat_exact (ks : List Nat) (hp : ks.Pairwise (· < ·)) (n : Nat) (hn : ks.length = n + 1)
    (hlast : ks.getLast? = some n) : ∀ (i : Nat) (h : i < ks.length), ks[i] = i := by
  intro i h
  have hlow := strict_nat_lower ks hp i h
  -- apply the lower bound to the suffix starting at `i`
  have hdrop : (ks.drop i).Pairwise (· < ·) := hp.sublist (List.drop_sublist _ _)
  have hlen : n - i < (ks.drop i).length := by simp; omega
  have hup := strict_nat_lower (ks.drop i) hdrop (n - i) hlen
  have hlastv : ks[n]'(by omega) = n := by
    rw [List.getLast?_eq_getElem?] at hlast
    have : ks.length - 1 = n := by omega
    rw [this] at hlast
    have h2 := List.getElem?_eq_getElem (l := ks) (i := n) (by omega)
    rw [h2] at hlast
    simpa using hlast
  simp only [List.getElem_drop] at hup
  have e1 : i + (n - i) = n := by omega
  have e2 : ks[i + (n - i)]'(by omega) = n := by simp only [e1]; exact hlastv
  simp only [Nat.add_zero] at hup
  omega

/-! ### reading the leaves of a crown -/

theorem mem_goD (x : Path × Leaf) : ∀ (es : List (String × Crown)),
    x ∈ Crown.leaves.goD es ↔ ∃ name c', (name, c') ∈ es ∧ ∃ y ∈ c'.leaves, x = (Key.s name :: y.1, y.2)
  | [] => by simp [Crown.leaves.goD]
  | (k, c) :: r => by
    simp only [Crown.leaves.goD, List.mem_append, List.mem_map, mem_goD x r, List.mem_cons, Prod.mk.injEq]
    constructor
    · rintro (⟨y, hy, rfl⟩ | ⟨name, c', hm, y, hy, rfl⟩)
      · exact ⟨k, c, .inl ⟨rfl, rfl⟩, y, hy, rfl⟩
      · exact ⟨name, c', .inr hm, y, hy, rfl⟩
    · rintro ⟨name, c', (⟨rfl, rfl⟩ | hm), y, hy, rfl⟩
      · exact .inl ⟨y, hy, rfl⟩
      · exact .inr ⟨name, c', hm, y, hy, rfl⟩

theorem mem_goL (x : Path × Leaf) : ∀ (cs : List Crown) (j : Nat),
    x ∈ Crown.leaves.goL j cs ↔ ∃ (i : Nat) (c' : Crown), cs[i]? = some c' ∧ ∃ y ∈ c'.leaves, x = (Key.i (j + i) :: y.1, y.2)
  | [], j => by simp [Crown.leaves.goL]
  | c :: r, j => by
    simp only [Crown.leaves.goL, List.mem_append, List.mem_map, mem_goL x r (j + 1)]
    constructor
    · rintro (⟨y, hy, rfl⟩ | ⟨i, c', hi, y, hy, rfl⟩)
      · exact ⟨0, c, by simp, y, hy, by simp⟩
      · exact ⟨i + 1, c', by simpa using hi, y, hy, by simp; omega⟩
    · rintro ⟨i, c', hi, y, hy, rfl⟩
      cases i with
      | zero =>
        simp at hi
        subst hi
        exact .inl ⟨y, hy, by simp⟩
      | succ i' => exact .inr ⟨i', c', by simpa using hi, y, hy, by simp; omega⟩

theorem mapM_except_ok {α β ε : Type} (f : α → Except ε β) : ∀ (l : List α) (out : List β),
    l.mapM f = .ok out →
    (∀ (i : Nat) a, l[i]? = some a → ∃ b, out[i]? = some b ∧ f a = .ok b) ∧
    (∀ (i : Nat) b, out[i]? = some b → ∃ a, l[i]? = some a ∧ f a = .ok b)
  | [], out, h => by
    simp [List.mapM_nil, pure, Except.pure] at h
    subst h
    simp
  | a :: l, out, h => by
    rw [List.mapM_cons] at h
    cases hf : f a with
    | error e => simp [hf, bind, Except.bind] at h
    | ok b =>
      cases hl : l.mapM f with
      | error e => simp [hf, hl, bind, Except.bind] at h
      | ok bs =>
        simp [hf, hl, bind, Except.bind, pure, Except.pure] at h
        subst h
        obtain ⟨ih1, ih2⟩ := mapM_except_ok f l bs hl
        constructor
        · intro i x hx
          cases i with
          | zero => simp at hx; subst hx; exact ⟨b, by simp, hf⟩
          | succ j => simpa using ih1 j x (by simpa using hx)
        · intro i y hy
          cases i with
          | zero => simp at hy; subst hy; exact ⟨a, by simp, hf⟩
          | succ j => simpa using ih2 j y (by simpa using hy)

/-! ### the placement theorem -/

/-- heads of a sorted item list are key-sorted -/
theorem keySorted_of_sorted (hs : List (Key × (Path × Leaf)))
    (h : (hs.map fun x => ((x.1 :: x.2.1, x.2.2) : Path × Leaf)).Pairwise (fun a b => pathLe a.1 b.1 = true)) :
    KeySorted hs := by
  unfold KeySorted
  rw [List.pairwise_map] at h
  refine h.imp ?_
  intro a b hab
  simp only [pathLe] at hab
  by_cases hk : a.1 = b.1
  · exact .inl hk
  · exact .inr (by simpa [hk] using hab)

/-- the tails inside one run are sorted -/
theorem run_sorted (hs : List (Key × (Path × Leaf))) (k : Key) (g : List (Path × Leaf))
    (h : (hs.map fun x => ((x.1 :: x.2.1, x.2.2) : Path × Leaf)).Pairwise (fun a b => pathLe a.1 b.1 = true))
    (hg : (k, g) ∈ groupRuns hs) : g.Pairwise (fun a b => pathLe a.1 b.1 = true) := by
  have hsub := groupRuns_sublist hs k g hg
  rw [List.pairwise_map] at h
  have := h.sublist hsub
  rw [List.pairwise_map] at this
  refine this.imp ?_
  intro a b hab
  simpa [pathLe] using hab

theorem buildEntry_ok (rec : Path → List (Path × Leaf) → Except StructErr Crown) (cur : Path)
    (k : Key) (g : List (Path × Leaf)) (name : String) (c : Crown)
    (h : buildEntry rec cur (k, g) = .ok (name, c)) : k = Key.s name ∧ rec (cur ++ [k]) g = .ok c := by
  unfold buildEntry at h
  cases k with
  | i n => simp at h
  | s nm =>
    simp only at h
    cases hr : rec (cur ++ [Key.s nm]) g with
    | error e => simp [hr] at h
    | ok cc =>
      simp [hr] at h
      exact ⟨by rw [h.1], by rw [← h.2]⟩

theorem build_leaves (order : Path → Option Nat) : ∀ (fuel : Nat) (cur : Path) (items : List (Path × Leaf))
    (c : Crown), items.Pairwise (fun a b => pathLe a.1 b.1 = true) → build order fuel cur items = .ok c →
    ∀ x, x ∈ c.leaves ↔ x ∈ items
  | 0, cur, items, c, _, hb => by simp [build] at hb
  | fuel + 1, cur, items, c, hsorted, hb => by
    unfold build at hb
    split at hb
    · simp at hb
    · -- exhausted path: a single leaf
      rename_i l0 rest
      split at hb
      · rename_i hrest
        simp at hb
        subst hb
        have : rest = [] := by simpa using hrest
        subst this
        intro x
        simp [Crown.leaves]
      · simp at hb
    · -- dict crown
      rename_i k0 p0 l0 rest
      split at hb
      · simp at hb
      · rename_i hs hsp
        have hitems := splitHeads_eq _ hs hsp
        rw [hitems] at hsorted
        split at hb
        · rename_i entries hm
          simp only [Except.ok.injEq] at hb
          subst hb
          obtain ⟨m1, m2⟩ := mapM_except_ok _ _ _ hm
          intro x
          simp only [Crown.leaves, mem_goD]
          have hperm : ∀ e, e ∈ sortEntries order cur entries ↔ e ∈ entries :=
            fun e => (List.mergeSort_perm entries _).mem_iff
          constructor
          · rintro ⟨name, c', hmem, y, hy, rfl⟩
            rw [hperm] at hmem
            obtain ⟨i, hi⟩ := List.getElem?_of_mem hmem
            obtain ⟨⟨k, g⟩, hgi, hf⟩ := m2 i _ hi
            have hkg : (k, g) ∈ groupRuns hs := List.mem_of_getElem? hgi
            obtain ⟨rfl, hbld⟩ := buildEntry_ok _ _ _ _ _ _ hf
            have ih := build_leaves order fuel _ g c' (run_sorted hs _ g hsorted hkg) hbld
            have hyg : y ∈ g := (ih y).mp hy
            have : (Key.s name, y) ∈ hs := (mem_groupRuns_iff hs _ y).mpr ⟨g, hkg, hyg⟩
            rw [hitems]
            exact List.mem_map.mpr ⟨(Key.s name, y), this, rfl⟩
          · intro hx
            rw [hitems] at hx
            obtain ⟨⟨k, y⟩, hky, rfl⟩ := List.mem_map.mp hx
            obtain ⟨g, hkg, hyg⟩ := (mem_groupRuns_iff hs k y).mp hky
            obtain ⟨i, hi⟩ := List.getElem?_of_mem hkg
            obtain ⟨⟨name, c'⟩, hei, hf⟩ := m1 i _ hi
            obtain ⟨rfl, hbld⟩ := buildEntry_ok _ _ _ _ _ _ hf
            have ih := build_leaves order fuel _ g c' (run_sorted hs _ g hsorted hkg) hbld
            exact ⟨name, c', (hperm _).mpr (List.mem_of_getElem? hei), y, (ih y).mpr hyg, rfl⟩
        · simp at hb
    · -- list crown
      rename_i k0 p0 l0 rest
      split at hb
      · simp at hb
      · rename_i hs hsp
        have hitems := splitHeads_eq _ hs hsp
        rw [hitems] at hsorted
        split at hb
        · rename_i last glast hlast
          split at hb
          · simp at hb
          · rename_i hcount
            split at hb
            · rename_i cs hm
              simp only [Except.ok.injEq] at hb
              subst hb
              obtain ⟨m1, m2⟩ := mapM_except_ok _ _ _ hm
              -- the i-th run has key `i`
              have hcnt : (groupRuns hs).length = last + 1 := by simpa using hcount
              have hstrict := groupRuns_strict hs (keySorted_of_sorted hs hsorted)
              have hkeys : ∀ (i : Nat) (k : Key) (g : List (Path × Leaf)),
                  (groupRuns hs)[i]? = some (k, g) → k = Key.i i := by
                -- all keys are ints below or equal to the last one
                have hall : ∀ kg ∈ groupRuns hs, ∃ n, kg.1 = Key.i n := by
                  intro kg hkg
                  obtain ⟨j, hj⟩ := List.getElem?_of_mem hkg
                  have hjlt : j < (groupRuns hs).length := by
                    rcases Nat.lt_or_ge j (groupRuns hs).length with h | h
                    · exact h
                    · rw [List.getElem?_eq_none h] at hj; simp at hj
                  by_cases hjl : j = last
                  · subst hjl
                    rw [List.getLast?_eq_getElem?] at hlast
                    have : (groupRuns hs).length - 1 = j := by omega
                    rw [this, hj] at hlast
                    simp at hlast
                    exact ⟨j, by rw [hlast]⟩
                  · have hlt : j < last := by omega
                    rw [List.getLast?_eq_getElem?] at hlast
                    have : (groupRuns hs).length - 1 = last := by omega
                    rw [this] at hlast
                    unfold StrictKeys at hstrict
                    rw [List.pairwise_iff_getElem] at hstrict
                    have hl2 : last < (groupRuns hs).length := by omega
                    have := hstrict j last (by simpa using hjlt) (by simpa using hl2) hlt
                    simp only [List.getElem_map] at this
                    have e1 : (groupRuns hs)[j] = kg := by
                      have := List.getElem?_eq_getElem hjlt
                      rw [this] at hj
                      simpa using hj
                    have e2 : (groupRuns hs)[last] = (Key.i last, glast) := by
                      have := List.getElem?_eq_getElem hl2
                      rw [this] at hlast
                      simpa using hlast
                    rw [e1, e2] at this
                    cases hk : kg.1 with
                    | i n => exact ⟨n, rfl⟩
                    | s nm => simp [hk, keyLe] at this
                -- the keys as naturals
                let ks : List Nat := (groupRuns hs).map fun kg => match kg.1 with | Key.i n => n | Key.s _ => 0
                have hks_len : ks.length = last + 1 := by simp [ks, hcnt]
                have hks_strict : ks.Pairwise (· < ·) := by
                  unfold StrictKeys at hstrict
                  rw [List.pairwise_map] at hstrict ⊢
                  refine (hstrict.imp_of_mem ?_)
                  intro a b ha hb hab
                  obtain ⟨na, hna⟩ := hall a ha
                  obtain ⟨nb, hnb⟩ := hall b hb
                  simp only [hna, hnb, keyLe, ne_eq, Key.i.injEq, decide_eq_true_eq] at hab ⊢
                  omega
                have hks_last : ks.getLast? = some last := by
                  simp only [ks, List.getLast?_map, hlast, Option.map_some]
                intro i k g hi
                have hilt : i < (groupRuns hs).length := by
                  rcases Nat.lt_or_ge i (groupRuns hs).length with h | h
                  · exact h
                  · rw [List.getElem?_eq_none h] at hi; simp at hi
                have := strict_nat_exact ks hks_strict last hks_len hks_last i (by simpa [ks] using hilt)
                simp only [ks, List.getElem_map] at this
                have e1 : (groupRuns hs)[i] = (k, g) := by
                  have h2 := List.getElem?_eq_getElem hilt
                  rw [h2] at hi
                  simpa using hi
                rw [e1] at this
                obtain ⟨n, hn⟩ := hall (k, g) (List.mem_of_getElem? hi)
                simp only at hn
                rw [hn] at this ⊢
                simp only at this
                rw [this]
              intro x
              simp only [Crown.leaves, mem_goL, Nat.zero_add]
              constructor
              · rintro ⟨i, c', hci, y, hy, rfl⟩
                obtain ⟨⟨k, g⟩, hgi, hf⟩ := m2 i _ hci
                have hk := hkeys i k g hgi
                subst hk
                have hkg : (Key.i i, g) ∈ groupRuns hs := List.mem_of_getElem? hgi
                have ih := build_leaves order fuel _ g c' (run_sorted hs _ g hsorted hkg) hf
                have hyg : y ∈ g := (ih y).mp hy
                have : (Key.i i, y) ∈ hs := (mem_groupRuns_iff hs _ y).mpr ⟨g, hkg, hyg⟩
                rw [hitems]
                exact List.mem_map.mpr ⟨(Key.i i, y), this, rfl⟩
              · intro hx
                rw [hitems] at hx
                obtain ⟨⟨k, y⟩, hky, rfl⟩ := List.mem_map.mp hx
                obtain ⟨g, hkg, hyg⟩ := (mem_groupRuns_iff hs k y).mp hky
                obtain ⟨i, hi⟩ := List.getElem?_of_mem hkg
                obtain ⟨c', hci, hf⟩ := m1 i _ hi
                have hk := hkeys i k g hi
                subst hk
                have ih := build_leaves order fuel _ g c' (run_sorted hs _ g hsorted hkg) hf
                exact ⟨i, c', hci, y, (ih y).mpr hyg, rfl⟩
            · simp at hb
        · simp at hb

end Adaptix.Layout
