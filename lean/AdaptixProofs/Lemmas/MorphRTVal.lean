/-
  C01 helper lemmas about the value universe: reflexivity of `same`, literal values,
  `dedup`/`dictSet` on pairwise different keys.
-/
import AdaptixProofs.Lemmas.MorphRTSpec

namespace Adaptix.Morph
open Adaptix.Py Adaptix.Morph.C01

theorem rt_sameMem_of_mem {x : Val} {ys : List Val} (hx : Val.same x x = true) (h : x ∈ ys) :
    Val.sameMem x ys = true := by
  induction ys with
  | nil => cases h
  | cons y ys ih =>
    rw [Val.sameMem]
    rcases List.mem_cons.1 h with rfl | h
    · simp [hx]
    · simp [ih h]

theorem rt_sameSub_of {xs ys : List Val} (h : ∀ x ∈ xs, Val.sameMem x ys = true) :
    Val.sameSub xs ys = true := by
  induction xs with
  | nil => rw [Val.sameSub]
  | cons x xs ih =>
    rw [Val.sameSub, h x (by simp), ih (fun y hy => h y (by simp [hy]))]; rfl

theorem rt_sameHasKV_of_mem {k v : Val} {kvs : List (Val × Val)} (hk : Val.same k k = true)
    (hv : Val.same v v = true) (h : (k, v) ∈ kvs) : Val.sameHasKV k v kvs = true := by
  induction kvs with
  | nil => cases h
  | cons p kvs ih =>
    obtain ⟨k', v'⟩ := p
    rw [Val.sameHasKV]
    rcases List.mem_cons.1 h with h | h
    · cases h; simp [hk, hv]
    · simp [ih h]

theorem rt_sameDictSub_of {a b : List (Val × Val)}
    (h : ∀ p ∈ a, Val.sameHasKV p.1 p.2 b = true) : Val.sameDictSub a b = true := by
  induction a with
  | nil => rw [Val.sameDictSub]
  | cons p a ih =>
    obtain ⟨k, v⟩ := p
    rw [Val.sameDictSub, h (k, v) (by simp), ih (fun q hq => h q (by simp [hq]))]; rfl

mutual
  /-- `same` is reflexive on the whole universe (nan is the same as nan) -/
  theorem rt_same_refl : ∀ x : Val, Val.same x x = true
    | .none => by simp [Val.same]
    | .bool _ => by simp [Val.same]
    | .int _ => by simp [Val.same]
    | .float _ => by simp [Val.same]
    | .str _ => by simp [Val.same]
    | .bytes _ => by simp [Val.same]
    | .bytearray _ => by simp [Val.same]
    | .list xs => by rw [Val.same]; exact rt_sameList_refl xs
    | .tuple xs => by rw [Val.same]; exact rt_sameList_refl xs
    | .deque xs => by rw [Val.same]; exact rt_sameList_refl xs
    | .iter xs => by rw [Val.same]; exact rt_sameList_refl xs
    | .set xs => by
      have h := rt_sameSub_of (fun x hx => rt_sameMem_of_mem (rt_same_all xs x hx) hx)
      rw [Val.same, h]; rfl
    | .frozenset xs => by
      have h := rt_sameSub_of (fun x hx => rt_sameMem_of_mem (rt_same_all xs x hx) hx)
      rw [Val.same, h]; rfl
    | .dict kvs => by
      have h : Val.sameDictSub kvs kvs = true :=
        rt_sameDictSub_of (fun p hp =>
          rt_sameHasKV_of_mem (rt_same_kvs kvs p hp).1 (rt_same_kvs kvs p hp).2 hp)
      rw [Val.same, h]; simp
    | .obj c fs => by rw [Val.same, rt_sameFields_refl fs]; simp
    | .atom _ _ => by simp [Val.same]
    | .opaque _ => by simp [Val.same]
  theorem rt_sameList_refl : ∀ xs : List Val, Val.sameList xs xs = true
    | [] => by rw [Val.sameList]
    | x :: xs => by rw [Val.sameList, rt_same_refl x, rt_sameList_refl xs]; rfl
  theorem rt_same_all : ∀ xs : List Val, ∀ x ∈ xs, Val.same x x = true
    | [], _, h => by cases h
    | y :: ys, x, h => by
      rcases List.mem_cons.1 h with h | h
      · exact h ▸ rt_same_refl y
      · exact rt_same_all ys x h
  theorem rt_same_kvs : ∀ kvs : List (Val × Val), ∀ p ∈ kvs,
      Val.same p.1 p.1 = true ∧ Val.same p.2 p.2 = true
    | [], _, h => by cases h
    | (k, v) :: rest, p, h => by
      rcases List.mem_cons.1 h with h | h
      · exact h ▸ ⟨rt_same_refl k, rt_same_refl v⟩
      · exact rt_same_kvs rest p h
  theorem rt_sameFields_refl : ∀ fs : List (String × Val), Val.sameFields fs fs = true
    | [] => by rw [Val.sameFields]
    | (n, v) :: rest => by
      rw [Val.sameFields, rt_same_refl v, rt_sameFields_refl rest]; simp
end

/-! ### literal values -/

theorem rt_same_lit {x v : Val} (hv : isLitVal v = true) (h : Val.same x v = true) : x = v := by
  cases v <;> simp [isLitVal] at hv <;> cases x <;> simp_all [Val.same]

theorem rt_pyEq_refl_lit {v : Val} (hv : isLitVal v = true) : Val.pyEq v v = true := by
  cases v <;> simp [isLitVal] at hv <;> simp [Val.pyEq]

theorem rt_memOf_of_mem {x : Val} {ys : List Val} (hx : Val.pyEq x x = true) (h : x ∈ ys) :
    Val.memOf x ys = true := by
  induction ys with
  | nil => cases h
  | cons y ys ih =>
    rw [Val.memOf]
    rcases List.mem_cons.1 h with rfl | h
    · simp [hx]
    · simp [ih h]

/-! ### sets and dict keys -/

theorem rt_dedup_distinct {xs : List Val} (h : Distinct xs) : Val.dedup xs = xs := by
  induction xs with
  | nil => rfl
  | cons x xs ih =>
    have h' := List.pairwise_cons.1 h
    simp only [Val.dedup, ih h'.2]
    congr 1
    apply List.filter_eq_self.2
    intro y hy
    simp [h'.1 y hy]

theorem rt_dictSet_new {acc : List (Val × Val)} {k v : Val}
    (h : ∀ p ∈ acc, Val.pyEq p.1 k = false) : Val.dictSet acc k v = acc ++ [(k, v)] := by
  unfold Val.dictSet
  have : acc.any (fun p => Val.pyEq p.1 k) = false := by
    simp only [List.any_eq_false]
    intro p hp; simp [h p hp]
  simp [this]

theorem rt_hashableAll_iff {xs : List Val} :
    Val.hashableAll xs = true ↔ ∀ x ∈ xs, Val.hashable x = true := by
  induction xs with
  | nil => simp [Val.hashableAll]
  | cons x xs ih => simp [Val.hashableAll, ih]

/-- the flat list the dict loader / dumper builds from its pairs -/
def rtFlat (vf : Bool) : List (Val × Val) → List Val
  | [] => []
  | (k, v) :: rest => if vf then v :: k :: rtFlat vf rest else k :: v :: rtFlat vf rest

theorem rt_buildDict {vf : Bool} {kvs acc : List (Val × Val)}
    (hh : ∀ p ∈ kvs, p.1.hashable = true)
    (hd : Distinct ((acc ++ kvs).map (·.1))) :
    buildDict vf (rtFlat vf kvs) acc = .ok (.dict (acc ++ kvs)) := by
  induction kvs generalizing acc with
  | nil => cases vf <;> simp [rtFlat, buildDict]
  | cons p kvs ih =>
    obtain ⟨k, v⟩ := p
    have hk : k.hashable = true := hh (k, v) (by simp)
    have hnew : Val.dictSet acc k v = acc ++ [(k, v)] := by
      apply rt_dictSet_new
      intro p hp
      have := hd
      simp only [Distinct, List.map_append, List.map_cons, List.pairwise_append] at this
      exact this.2.2 p.1 (List.mem_map_of_mem hp) k (by simp)
    have hrest := ih (acc := acc ++ [(k, v)]) (fun p hp => hh p (by simp [hp])) (by simpa using hd)
    cases vf <;> simp [rtFlat, buildDict, hk, hnew, hrest]

theorem rt_buildDictD {vf : Bool} {kvs acc : List (Val × Val)}
    (hh : ∀ p ∈ kvs, p.1.hashable = true)
    (hd : Distinct ((acc ++ kvs).map (·.1))) :
    buildDictD vf (rtFlat vf kvs) acc = .ok (.dict (acc ++ kvs)) := by
  induction kvs generalizing acc with
  | nil => cases vf <;> simp [rtFlat, buildDictD]
  | cons p kvs ih =>
    obtain ⟨k, v⟩ := p
    have hk : k.hashable = true := hh (k, v) (by simp)
    have hnew : Val.dictSet acc k v = acc ++ [(k, v)] := by
      apply rt_dictSet_new
      intro p hp
      have := hd
      simp only [Distinct, List.map_append, List.map_cons, List.pairwise_append] at this
      exact this.2.2 p.1 (List.mem_map_of_mem hp) k (by simp)
    have hrest := ih (acc := acc ++ [(k, v)]) (fun p hp => hh p (by simp [hp])) (by simpa using hd)
    cases vf <;> simp [rtFlat, buildDictD, hk, hnew, hrest]

end Adaptix.Morph
