/-
  C15 helper lemmas: the ordering key of literal values (`litKey`) is injective.

  `IdentKeys.literals` / `DistinctOrderKeys.literals` quantify over *every* literal value
  (every `int`, every `str` / `bytes` text, every enum member).  That they can hold at all is a
  fact about the modelled `repr()`: `intRepr` is injective (decimal digits, sign), `pyRepr` is
  injective (the escape table is a prefix code, the quote is determined by the first character),
  the texts of the different literal types never coincide, and enum members carry the (non-zero)
  `id()` of their class.  With this file the `literals` field is a *theorem* for every world whose
  `id()` separates objects and is never 0 — the audit's answer to "is the hypothesis of
  `normalize_respects` / `canonical_form` / `idempotent` satisfiable?".
-/
import AdaptixModel.Types.HintSpec

namespace Adaptix.Types

/-! ### `repr(int)` -/

/-- reading a decimal numeral back -/
def digitsVal (s : Str) : Nat := s.foldl (fun a c => 10 * a + (c.toNat - 48)) 0

theorem digitChar_val (n : Nat) : (digitChar n).toNat - 48 = n % 10 := by
  have h : ∀ k, k < 10 → (Char.ofNat (48 + k)).toNat - 48 = k := by decide
  exact h (n % 10) (Nat.mod_lt _ (by decide))

theorem foldl_natDigitsAux : ∀ (fuel n : Nat) (acc : Str), n < fuel →
    (natDigitsAux fuel n acc).foldl (fun a c => 10 * a + (c.toNat - 48)) 0 =
      acc.foldl (fun a c => 10 * a + (c.toNat - 48)) n
  | 0, n, _, h => absurd h (Nat.not_lt_zero n)
  | fuel + 1, n, acc, h => by
    unfold natDigitsAux
    split
    · rename_i h0
      simp only [List.foldl_cons, digitChar_val]
      have : 10 * 0 + n % 10 = n := by omega
      rw [this]
    · rename_i h0
      rw [foldl_natDigitsAux fuel (n / 10) (digitChar n :: acc) (by omega)]
      simp only [List.foldl_cons, digitChar_val]
      have : 10 * (n / 10) + n % 10 = n := by omega
      rw [this]

theorem digitsVal_natRepr (n : Nat) : digitsVal (natRepr n) = n := by
  unfold digitsVal natRepr
  rw [foldl_natDigitsAux (n + 1) n [] (Nat.lt_succ_self n)]
  rfl

theorem natRepr_inj {n m : Nat} (h : natRepr n = natRepr m) : n = m := by
  have := congrArg digitsVal h
  rwa [digitsVal_natRepr, digitsVal_natRepr] at this

theorem mem_natDigitsAux : ∀ (fuel n : Nat) (acc : Str) (c : Char),
    c ∈ natDigitsAux fuel n acc → c ∈ acc ∨ ∃ d, c = digitChar d
  | 0, _, _, c, h => by
    unfold natDigitsAux at h
    exact .inl h
  | fuel + 1, n, acc, c, h => by
    unfold natDigitsAux at h
    split at h
    · rcases List.mem_cons.mp h with rfl | h
      · exact .inr ⟨n, rfl⟩
      · exact .inl h
    · rcases mem_natDigitsAux fuel (n / 10) (digitChar n :: acc) c h with h | h
      · rcases List.mem_cons.mp h with rfl | h
        · exact .inr ⟨n, rfl⟩
        · exact .inl h
      · exact .inr h

/-- a character of a decimal digit -/
def isDigitChar (c : Char) : Prop := 48 ≤ c.toNat ∧ c.toNat < 58

theorem digitChar_isDigit (d : Nat) : isDigitChar (digitChar d) := by
  have h : ∀ k, k < 10 → isDigitChar (Char.ofNat (48 + k)) := by
    unfold isDigitChar
    decide
  exact h (d % 10) (Nat.mod_lt _ (by decide))

theorem mem_natRepr {n : Nat} {c : Char} (h : c ∈ natRepr n) : isDigitChar c := by
  rcases mem_natDigitsAux _ _ _ _ h with h | ⟨d, rfl⟩
  · simp at h
  · exact digitChar_isDigit d

/-- every character of `repr(i)` is a digit or the sign -/
theorem mem_intRepr {i : Int} {c : Char} (h : c ∈ intRepr i) : c = '-' ∨ isDigitChar c := by
  cases i with
  | ofNat n => exact .inr (mem_natRepr h)
  | negSucc n =>
    rcases List.mem_cons.mp h with rfl | h
    · exact .inl rfl
    · exact .inr (mem_natRepr h)

theorem intRepr_inj {i j : Int} (h : intRepr i = intRepr j) : i = j := by
  have hminus : ¬ isDigitChar '-' := by unfold isDigitChar; decide
  cases i with
  | ofNat n =>
    cases j with
    | ofNat m => exact congrArg Int.ofNat (natRepr_inj h)
    | negSucc m =>
      exfalso
      have : '-' ∈ natRepr n := by
        have h' : natRepr n = '-' :: natRepr (m + 1) := h
        rw [h']
        exact List.mem_cons_self
      exact hminus (mem_natRepr this)
  | negSucc n =>
    cases j with
    | ofNat m =>
      exfalso
      have : '-' ∈ natRepr m := by
        have h' : '-' :: natRepr (n + 1) = natRepr m := h
        rw [← h']
        exact List.mem_cons_self
      exact hminus (mem_natRepr this)
    | negSucc m =>
      have h' : '-' :: natRepr (n + 1) = '-' :: natRepr (m + 1) := h
      have := natRepr_inj (List.cons.inj h').2
      have : n = m := by omega
      rw [this]

/-! ### `repr(str)`: the escape table is a prefix code -/

theorem hexDigit_inj : ∀ a, a < 16 → ∀ b, b < 16 → hexDigit a = hexDigit b → a = b := by decide

theorem hex_pair_inj {c c' : Char} (hc : c.toNat < 128) (hc' : c'.toNat < 128)
    (h1 : hexDigit (c.toNat / 16) = hexDigit (c'.toNat / 16))
    (h2 : hexDigit (c.toNat % 16) = hexDigit (c'.toNat % 16)) : c = c' := by
  have e1 := hexDigit_inj _ (by omega) _ (by omega) h1
  have e2 := hexDigit_inj _ (Nat.mod_lt _ (by decide)) _ (Nat.mod_lt _ (by decide)) h2
  exact Char.toNat_inj.mp (by omega)

/-- the shapes an escaped character can take -/
inductive EscShape (q : Char) (c : Char) : Str → Prop
  | quoted : (c = q ∨ c = '\\') → EscShape q c ['\\', c]
  | nl : c = '\n' → EscShape q c ['\\', 'n']
  | cr : c = '\r' → EscShape q c ['\\', 'r']
  | tab : c = '\t' → EscShape q c ['\\', 't']
  | hex : (c.toNat < 32 ∨ c.toNat = 127) → c ≠ '\n' → c ≠ '\r' → c ≠ '\t' → c ≠ q → c ≠ '\\' →
      EscShape q c ['\\', 'x', hexDigit (c.toNat / 16), hexDigit (c.toNat % 16)]
  | plain : c ≠ q → c ≠ '\\' → EscShape q c [c]

theorem escShape (q c : Char) : EscShape q c (pyEscapeChar q c) := by
  unfold pyEscapeChar
  split
  · rename_i h; exact .quoted h
  · rename_i h
    have hq : c ≠ q := fun e => h (.inl e)
    have hb : c ≠ '\\' := fun e => h (.inr e)
    split
    · rename_i h1; exact .nl h1
    · rename_i h1
      split
      · rename_i h2; exact .cr h2
      · rename_i h2
        split
        · rename_i h3; exact .tab h3
        · rename_i h3
          split
          · rename_i h4; exact .hex h4 h1 h2 h3 hq hb
          · exact .plain hq hb

/-- the escape of a character can be told from whatever follows it -/
theorem esc_cancel {q : Char} (hq : q = '\'' ∨ q = '"') {c c' : Char} {e e' r r' : Str}
    (he : EscShape q c e) (he' : EscShape q c' e') (h : e ++ r = e' ++ r') : c = c' ∧ r = r' := by
  have q1 : q ≠ 'n' := by rcases hq with rfl | rfl <;> decide
  have q2 : q ≠ 'r' := by rcases hq with rfl | rfl <;> decide
  have q3 : q ≠ 't' := by rcases hq with rfl | rfl <;> decide
  have q4 : q ≠ 'x' := by rcases hq with rfl | rfl <;> decide
  have b1 : ('\\' : Char) ≠ 'n' := by decide
  have b2 : ('\\' : Char) ≠ 'r' := by decide
  have b3 : ('\\' : Char) ≠ 't' := by decide
  have b4 : ('\\' : Char) ≠ 'x' := by decide
  have n2 : ('n' : Char) ≠ 'r' := by decide
  have n3 : ('n' : Char) ≠ 't' := by decide
  have n4 : ('n' : Char) ≠ 'x' := by decide
  have r3 : ('r' : Char) ≠ 't' := by decide
  have r4 : ('r' : Char) ≠ 'x' := by decide
  have t4 : ('t' : Char) ≠ 'x' := by decide
  have key : ∀ {x : Char}, (x = q ∨ x = '\\') → x ≠ 'n' ∧ x ≠ 'r' ∧ x ≠ 't' ∧ x ≠ 'x' := by
    intro x hx
    rcases hx with rfl | rfl
    · exact ⟨q1, q2, q3, q4⟩
    · exact ⟨b1, b2, b3, b4⟩
  cases he with
  | quoted hc =>
    cases he' with
    | quoted hc' =>
      simp only [List.cons_append, List.nil_append, List.cons.injEq, true_and] at h
      exact h
    | nl e => simp only [List.cons_append, List.nil_append, List.cons.injEq, true_and] at h; exact absurd h.1 (key hc).1
    | cr e => simp only [List.cons_append, List.nil_append, List.cons.injEq, true_and] at h; exact absurd h.1 (key hc).2.1
    | tab e => simp only [List.cons_append, List.nil_append, List.cons.injEq, true_and] at h; exact absurd h.1 (key hc).2.2.1
    | hex _ _ _ _ _ _ => simp only [List.cons_append, List.nil_append, List.cons.injEq, true_and] at h; exact absurd h.1 (key hc).2.2.2
    | plain _ hb => simp only [List.cons_append, List.nil_append, List.cons.injEq] at h; exact absurd h.1.symm hb
  | nl e =>
    cases he' with
    | quoted hc' => simp only [List.cons_append, List.nil_append, List.cons.injEq, true_and] at h; exact absurd h.1.symm (key hc').1
    | nl e' => simp only [List.cons_append, List.nil_append, List.cons.injEq, true_and] at h; exact ⟨e.trans e'.symm, h⟩
    | cr e' => simp only [List.cons_append, List.nil_append, List.cons.injEq, true_and] at h; exact absurd h.1 n2
    | tab e' => simp only [List.cons_append, List.nil_append, List.cons.injEq, true_and] at h; exact absurd h.1 n3
    | hex _ _ _ _ _ _ => simp only [List.cons_append, List.nil_append, List.cons.injEq, true_and] at h; exact absurd h.1 n4
    | plain _ hb => simp only [List.cons_append, List.nil_append, List.cons.injEq] at h; exact absurd h.1.symm hb
  | cr e =>
    cases he' with
    | quoted hc' => simp only [List.cons_append, List.nil_append, List.cons.injEq, true_and] at h; exact absurd h.1.symm (key hc').2.1
    | nl e' => simp only [List.cons_append, List.nil_append, List.cons.injEq, true_and] at h; exact absurd h.1.symm n2
    | cr e' => simp only [List.cons_append, List.nil_append, List.cons.injEq, true_and] at h; exact ⟨e.trans e'.symm, h⟩
    | tab e' => simp only [List.cons_append, List.nil_append, List.cons.injEq, true_and] at h; exact absurd h.1 r3
    | hex _ _ _ _ _ _ => simp only [List.cons_append, List.nil_append, List.cons.injEq, true_and] at h; exact absurd h.1 r4
    | plain _ hb => simp only [List.cons_append, List.nil_append, List.cons.injEq] at h; exact absurd h.1.symm hb
  | tab e =>
    cases he' with
    | quoted hc' => simp only [List.cons_append, List.nil_append, List.cons.injEq, true_and] at h; exact absurd h.1.symm (key hc').2.2.1
    | nl e' => simp only [List.cons_append, List.nil_append, List.cons.injEq, true_and] at h; exact absurd h.1.symm n3
    | cr e' => simp only [List.cons_append, List.nil_append, List.cons.injEq, true_and] at h; exact absurd h.1.symm r3
    | tab e' => simp only [List.cons_append, List.nil_append, List.cons.injEq, true_and] at h; exact ⟨e.trans e'.symm, h⟩
    | hex _ _ _ _ _ _ => simp only [List.cons_append, List.nil_append, List.cons.injEq, true_and] at h; exact absurd h.1 t4
    | plain _ hb => simp only [List.cons_append, List.nil_append, List.cons.injEq] at h; exact absurd h.1.symm hb
  | hex hr _ _ _ _ _ =>
    cases he' with
    | quoted hc' => simp only [List.cons_append, List.nil_append, List.cons.injEq, true_and] at h; exact absurd h.1.symm (key hc').2.2.2
    | nl e' => simp only [List.cons_append, List.nil_append, List.cons.injEq, true_and] at h; exact absurd h.1.symm n4
    | cr e' => simp only [List.cons_append, List.nil_append, List.cons.injEq, true_and] at h; exact absurd h.1.symm r4
    | tab e' => simp only [List.cons_append, List.nil_append, List.cons.injEq, true_and] at h; exact absurd h.1.symm t4
    | hex hr' _ _ _ _ _ =>
      simp only [List.cons_append, List.nil_append, List.cons.injEq, true_and] at h
      exact ⟨hex_pair_inj (by omega) (by omega) h.1 h.2.1, h.2.2⟩
    | plain _ hb => simp only [List.cons_append, List.nil_append, List.cons.injEq] at h; exact absurd h.1.symm hb
  | plain _ hb =>
    cases he' with
    | quoted hc' => simp only [List.cons_append, List.nil_append, List.cons.injEq] at h; exact absurd h.1 hb
    | nl e' => simp only [List.cons_append, List.nil_append, List.cons.injEq] at h; exact absurd h.1 hb
    | cr e' => simp only [List.cons_append, List.nil_append, List.cons.injEq] at h; exact absurd h.1 hb
    | tab e' => simp only [List.cons_append, List.nil_append, List.cons.injEq] at h; exact absurd h.1 hb
    | hex _ _ _ _ _ _ => simp only [List.cons_append, List.nil_append, List.cons.injEq] at h; exact absurd h.1 hb
    | plain _ _ => simp only [List.cons_append, List.nil_append, List.cons.injEq] at h; exact h

theorem escShape_ne_nil {q c : Char} {e : Str} (h : EscShape q c e) : e ≠ [] := by
  cases h <;> simp

theorem flatMap_esc_inj {q : Char} (hq : q = '\'' ∨ q = '"') :
    ∀ (s s' : Str), s.flatMap (pyEscapeChar q) = s'.flatMap (pyEscapeChar q) → s = s'
  | [], [], _ => rfl
  | [], c' :: t', h => by
    simp only [List.flatMap_nil, List.flatMap_cons] at h
    have := escShape_ne_nil (escShape q c')
    cases he : pyEscapeChar q c' with
    | nil => exact absurd he this
    | cons a l => rw [he] at h; simp at h
  | c :: t, [], h => by
    simp only [List.flatMap_nil, List.flatMap_cons] at h
    have := escShape_ne_nil (escShape q c)
    cases he : pyEscapeChar q c with
    | nil => exact absurd he this
    | cons a l => rw [he] at h; simp at h
  | c :: t, c' :: t', h => by
    simp only [List.flatMap_cons] at h
    obtain ⟨rfl, hr⟩ := esc_cancel hq (escShape q c) (escShape q c') h
    rw [flatMap_esc_inj hq t t' hr]

/-- the quote `repr(str)` chooses -/
def pyQuote (s : Str) : Char := if s.contains '\'' ∧ ¬ s.contains '"' then '"' else '\''

theorem pyRepr_eq (s : Str) : pyRepr s = pyQuote s :: (s.flatMap (pyEscapeChar (pyQuote s)) ++ [pyQuote s]) := rfl

theorem pyQuote_cases (s : Str) : pyQuote s = '\'' ∨ pyQuote s = '"' := by
  unfold pyQuote
  split
  · exact .inr rfl
  · exact .inl rfl

theorem pyRepr_inj {s s' : Str} (h : pyRepr s = pyRepr s') : s = s' := by
  rw [pyRepr_eq, pyRepr_eq] at h
  obtain ⟨hq, hrest⟩ := List.cons.inj h
  rw [← hq] at hrest
  exact flatMap_esc_inj (pyQuote_cases s) s s' (List.append_cancel_right hrest)

theorem pyRepr_head (s : Str) : ∃ t, pyRepr s = '\'' :: t ∨ pyRepr s = '"' :: t := by
  rw [pyRepr_eq]
  rcases pyQuote_cases s with h | h <;> rw [h]
  · exact ⟨_, .inl rfl⟩
  · exact ⟨_, .inr rfl⟩

/-! ### the keys of literal values -/

variable {α : Type}

/-- **`litKey` is injective** in every world whose `id()` separates the (enum) classes and is
    never 0: the `literals` field of `IdentKeys` / `DistinctOrderKeys` is not an assumption
    about `repr()` but a theorem about the modelled `repr()`. -/
theorem litKey_inj (W : World α) (hid : ∀ a b : α, W.ident a = W.ident b → a = b)
    (hnz : ∀ a : α, W.ident a ≠ 0) : ∀ v w : LitVal α, litKey W v = litKey W w → v = w := by
  have notDigit : ∀ {i : Int} {c : Char}, c ≠ '-' → ¬ isDigitChar c → c ∉ intRepr i :=
    fun h1 h2 hm => (mem_intRepr hm).elim h1 h2
  have hT : ¬ isDigitChar 'T' := by unfold isDigitChar; decide
  have hF : ¬ isDigitChar 'F' := by unfold isDigitChar; decide
  have hN : ¬ isDigitChar 'N' := by unfold isDigitChar; decide
  have hb : ¬ isDigitChar 'b' := by unfold isDigitChar; decide
  have hq1 : ¬ isDigitChar '\'' := by unfold isDigitChar; decide
  have hq2 : ¬ isDigitChar '"' := by unfold isDigitChar; decide
  -- `repr(int)` is none of the other texts
  have intT : ∀ i : Int, intRepr i ≠ ['T', 'r', 'u', 'e'] := fun i e =>
    notDigit (i := i) (c := 'T') (by decide) hT (by rw [e]; simp)
  have intF : ∀ i : Int, intRepr i ≠ ['F', 'a', 'l', 's', 'e'] := fun i e =>
    notDigit (i := i) (c := 'F') (by decide) hF (by rw [e]; simp)
  have intN : ∀ i : Int, intRepr i ≠ ['N', 'o', 'n', 'e'] := fun i e =>
    notDigit (i := i) (c := 'N') (by decide) hN (by rw [e]; simp)
  have intS : ∀ (i : Int) (s : Str), intRepr i ≠ pyRepr s := fun i s e => by
    obtain ⟨t, ht | ht⟩ := pyRepr_head s
    · exact notDigit (i := i) (c := '\'') (by decide) hq1 (by rw [e, ht]; simp)
    · exact notDigit (i := i) (c := '"') (by decide) hq2 (by rw [e, ht]; simp)
  have intB : ∀ (i : Int) (s : Str), intRepr i ≠ 'b' :: pyRepr s := fun i s e =>
    notDigit (i := i) (c := 'b') (by decide) hb (by rw [e]; simp)
  -- the quoted texts
  have strT : ∀ (s : Str) (t : Str) (c : Char), c ≠ '\'' → c ≠ '"' → pyRepr s ≠ c :: t := fun s t c h1 h2 e => by
    obtain ⟨u, hu | hu⟩ := pyRepr_head s
    · rw [hu] at e; exact h1 (List.cons.inj e).1.symm
    · rw [hu] at e; exact h2 (List.cons.inj e).1.symm
  intro v w h
  cases v with
  | int i =>
    cases w with
    | int j => simp only [litKey, OKey.mk.injEq, and_true] at h; rw [intRepr_inj h]
    | bool b => cases b <;> simp only [litKey, OKey.mk.injEq, and_true] at h <;> first | exact absurd h (intF i) | exact absurd h (intT i)
    | str s => simp only [litKey, OKey.mk.injEq, and_true] at h; exact absurd h (intS i s)
    | bytes s => simp only [litKey, OKey.mk.injEq, and_true] at h; exact absurd h (intB i s)
    | enum c n => simp only [litKey, OKey.mk.injEq, and_true] at h; exact absurd h.2.symm (hnz c)
    | none => simp only [litKey, OKey.mk.injEq, and_true] at h; exact absurd h (intN i)
  | bool b =>
    cases w with
    | int j => cases b <;> simp only [litKey, OKey.mk.injEq, and_true] at h <;> first | exact absurd h.symm (intF j) | exact absurd h.symm (intT j)
    | bool b' => cases b <;> cases b' <;> simp [litKey] at h ⊢
    | str s => cases b <;> simp only [litKey, OKey.mk.injEq, and_true] at h <;> exact absurd h.symm (strT s _ _ (by decide) (by decide))
    | bytes s => cases b <;> simp [litKey] at h
    | enum c n => cases b <;> simp only [litKey, OKey.mk.injEq, and_true] at h <;> exact absurd h.2.symm (hnz c)
    | none => cases b <;> simp [litKey] at h
  | str s =>
    cases w with
    | int j => simp only [litKey, OKey.mk.injEq, and_true] at h; exact absurd h.symm (intS j s)
    | bool b => cases b <;> simp only [litKey, OKey.mk.injEq, and_true] at h <;> exact absurd h (strT s _ _ (by decide) (by decide))
    | str s' => simp only [litKey, OKey.mk.injEq, and_true] at h; rw [pyRepr_inj h]
    | bytes s' => simp only [litKey, OKey.mk.injEq, and_true] at h; exact absurd h (strT s _ _ (by decide) (by decide))
    | enum c n => simp only [litKey, OKey.mk.injEq, and_true] at h; exact absurd h.2.symm (hnz c)
    | none => simp only [litKey, OKey.mk.injEq, and_true] at h; exact absurd h (strT s _ _ (by decide) (by decide))
  | bytes s =>
    cases w with
    | int j => simp only [litKey, OKey.mk.injEq, and_true] at h; exact absurd h.symm (intB j s)
    | bool b => cases b <;> simp [litKey] at h
    | str s' => simp only [litKey, OKey.mk.injEq, and_true] at h; exact absurd h.symm (strT s' _ _ (by decide) (by decide))
    | bytes s' =>
      simp only [litKey, OKey.mk.injEq, and_true, List.cons.injEq, true_and] at h
      rw [pyRepr_inj h]
    | enum c n => simp only [litKey, OKey.mk.injEq, and_true] at h; exact absurd h.2.symm (hnz c)
    | none => simp [litKey] at h
  | enum c n =>
    cases w with
    | int j => simp only [litKey, OKey.mk.injEq, and_true] at h; exact absurd h.2 (hnz c)
    | bool b => cases b <;> simp only [litKey, OKey.mk.injEq, and_true] at h <;> exact absurd h.2 (hnz c)
    | str s' => simp only [litKey, OKey.mk.injEq, and_true] at h; exact absurd h.2 (hnz c)
    | bytes s' => simp only [litKey, OKey.mk.injEq, and_true] at h; exact absurd h.2 (hnz c)
    | enum c' n' =>
      simp only [litKey, OKey.mk.injEq, and_true] at h
      obtain ⟨ht, hi⟩ := h
      have := hid c c' hi
      subst this
      rw [List.append_cancel_left ht]
    | none => simp only [litKey, OKey.mk.injEq, and_true] at h; exact absurd h.2 (hnz c)
  | none =>
    cases w with
    | int j => simp only [litKey, OKey.mk.injEq, and_true] at h; exact absurd h.symm (intN j)
    | bool b => cases b <;> simp [litKey] at h
    | str s' => simp only [litKey, OKey.mk.injEq, and_true] at h; exact absurd h.symm (strT s' _ _ (by decide) (by decide))
    | bytes s' => simp [litKey] at h
    | enum c n => simp only [litKey, OKey.mk.injEq, and_true] at h; exact absurd h.2.symm (hnz c)
    | none => rfl

/-- **`IdentKeys` from facts about `id()` alone**: `id()` separates the objects a hint can mention
    (classes, generic origins, enum classes) and the origins (special forms included), and is never
    0.  Nothing about `repr()` is assumed any more. -/
theorem identKeys_of_ids [DecidableEq α] (W : World α)
    (hid : ∀ a b : α, W.ident a = W.ident b → a = b)
    (horig : ∀ o o' : Origin α, originKey W o = originKey W o' → o = o')
    (hnz : ∀ o : Origin α, (originKey W o).2 ≠ 0) : IdentKeys W where
  origins := horig
  ident_ne_zero := hnz
  literals := litKey_inj W hid (fun a => hnz (.obj a))

end Adaptix.Types
