/-
  Helper lemmas for C17: from the arguments a loader passes to the *object* the kind's constructor
  builds (`objectOf`): an object that received an argument for every field does not depend on the kind,
  and a successful load over a logical model's specification passes an argument for every field the
  name layout does not skip.
-/
import AdaptixModel.Kinds.Shapes

namespace Adaptix.Kinds

section
variable {D V : Type}

/-- an object that received an argument for every logical field does not depend on what the kind's
    constructor makes of absent arguments -/
theorem objectOf_all_args (k₁ k₂ : Kind) (lit : Scalar → V) (call : Factory → V) (none_ : V) (m : LogicalModel)
    (args : List (String × V)) (hall : ∀ f ∈ m.fields, (args.lookup f.name).isSome) :
    objectOf k₁ lit call none_ m args = objectOf k₂ lit call none_ m args := by
  unfold objectOf
  apply List.map_congr_left
  intro f hf
  have := hall f hf
  cases hl : args.lookup f.name with
  | none => simp [hl] at this
  | some v => rfl

theorem lookup_isSome_of_mem {β : Type} {l : List (String × β)} {k : String} {v : β} (h : (k, v) ∈ l) :
    (l.lookup k).isSome := by
  induction l with
  | nil => cases h
  | cons x xs ih =>
    obtain ⟨a, b⟩ := x
    simp only [List.lookup_cons]
    cases hb : k == a
    · simp only
      rcases List.mem_cons.mp h with h | h
      · cases h
        simp at hb
      · exact ih h
    · rfl

/-- a successful load over the specification of a logical model passes an argument for every field
    the name layout does not skip: optional fields of a logical model always carry a default -/
theorem loadSpecs_ok_all_args (ld : Ty → D → Option V) (lit : Scalar → V) (call : Factory → V)
    (nm : String → Option String) (m : LogicalModel) (inp : Input D) (args : List (String × V))
    (h : loadSpecs ld lit call nm m.inSpecs inp = .ok args) :
    ∀ f ∈ m.fields, (nm f.name).isSome → (args.lookup f.name).isSome := by
  intro f hf hnm
  unfold loadSpecs at h
  split at h
  · cases h
  · cases inp with
    | notMapping => cases h
    | mapping kvs =>
      simp only at h
      split at h
      · rename_i hemp
        cases h
        simp only [Bool.and_eq_true, List.isEmpty_iff] at hemp
        have hmiss := hemp.1
        have hbad := hemp.2
        have hfs : f.inSpec ∈ m.inSpecs := List.mem_map_of_mem hf
        have h1 : (fieldRes ld lit call nm kvs f.inSpec).missingOf = none := by
          cases hx : (fieldRes ld lit call nm kvs f.inSpec).missingOf with
          | none => rfl
          | some k =>
            have : k ∈ m.inSpecs.filterMap (fun f => (fieldRes ld lit call nm kvs f).missingOf) :=
              List.mem_filterMap.mpr ⟨_, hfs, hx⟩
            rw [hmiss] at this
            cases this
        have h2 : (fieldRes ld lit call nm kvs f.inSpec).badOf = none := by
          cases hx : (fieldRes ld lit call nm kvs f.inSpec).badOf with
          | none => rfl
          | some k =>
            have : k ∈ m.inSpecs.filterMap (fun f => (fieldRes ld lit call nm kvs f).badOf) :=
              List.mem_filterMap.mpr ⟨_, hfs, hx⟩
            rw [hbad] at this
            cases this
        have h3 : ∃ v, fieldRes ld lit call nm kvs f.inSpec = .arg v := by
          cases hk : nm f.name with
          | none => simp [hk] at hnm
          | some k =>
            have hk' : nm f.inSpec.id = some k := hk
            cases hl : kvs.lookup k with
            | some d =>
              cases hv : ld f.ty d with
              | some v => exact ⟨v, by simp [fieldRes, hk, hl, LField.inSpec, hv]⟩
              | none => simp [fieldRes, hk, hl, LField.inSpec, hv, FieldRes.badOf] at h2
            | none =>
              cases hd : f.default with
              | none => simp [fieldRes, hk, hl, LField.inSpec, hd, LDflt.isNone, FieldRes.missingOf] at h1
              | value v => exact ⟨lit v, by simp [fieldRes, hk, hl, LField.inSpec, hd, LDflt.isNone, LDflt.toDflt, absentRes]⟩
              | factory fa => exact ⟨call fa, by simp [fieldRes, hk, hl, LField.inSpec, hd, LDflt.isNone, LDflt.toDflt, absentRes]⟩
        obtain ⟨v, hv⟩ := h3
        apply lookup_isSome_of_mem (v := v)
        refine List.mem_filterMap.mpr ⟨f.inSpec, hfs, ?_⟩
        show (fieldRes ld lit call nm kvs f.inSpec).argOf f.inSpec.id = some (f.name, v)
        rw [hv]; rfl
      · cases h
end

end Adaptix.Kinds
