/-
  Helper lemmas for C19 (skeleton): the tokenizer over rendered pieces.
-/
import AdaptixModel.Gen.Skeleton
import AdaptixProofs.Lemmas.Quote
import AdaptixProofs.Lemmas.QuoteNames

namespace Adaptix.Gen

/-! ### character classes -/

theorem idStart_facts {x : Nat} (h : isIdStart x = true) :
    x ≠ 32 ∧ x ≠ 10 ∧ x ≠ 35 ∧ x ≠ 39 ∧ x ≠ 34 ∧ isIdCont x = true := by
  have h' := h
  simp [isIdStart, isAsciiLetter] at h
  refine ⟨by omega, by omega, by omega, by omega, by omega, ?_⟩
  simp [isIdCont, h']

theorem digit_facts {x : Nat} (h : isDigit x = true) :
    x ≠ 32 ∧ x ≠ 10 ∧ x ≠ 35 ∧ x ≠ 39 ∧ x ≠ 34 ∧ isIdStart x = false ∧ isIdCont x = true := by
  have h' := h
  simp [isDigit] at h
  refine ⟨by omega, by omega, by omega, by omega, by omega, ?_, ?_⟩
  · simp [isIdStart, isAsciiLetter]; omega
  · simp [isIdCont, h']

theorem op_facts : ∀ x ∈ opChars,
    x ≠ 32 ∧ x ≠ 10 ∧ x ≠ 35 ∧ x ≠ 39 ∧ x ≠ 34 ∧ isIdStart x = false ∧ isDigit x = false ∧ isIdCont x = false := by
  decide

theorem op_facts' {x : Nat} (h : isOpChar x = true) :
    x ≠ 32 ∧ x ≠ 10 ∧ x ≠ 35 ∧ x ≠ 39 ∧ x ≠ 34 ∧ isIdStart x = false ∧ isDigit x = false ∧ isIdCont x = false := by
  apply op_facts
  simpa [isOpChar] using h

/-! ### takeWhile / dropWhile over a run followed by a stopper -/

theorem takeWhile_run (p : Nat → Bool) (l R : Str) (hl : ∀ x ∈ l, p x = true)
    (hR : ∀ x, R.head? = some x → p x = false) :
    (l ++ R).takeWhile p = l ∧ (l ++ R).dropWhile p = R := by
  induction l with
  | nil =>
    cases R with
    | nil => simp
    | cons x R' =>
      have := hR x (by simp)
      simp [this]
  | cons a t ih =>
    have ha : p a = true := hl a (by simp)
    have := ih (fun x hx => hl x (by simp [hx]))
    simp [ha, this.1, this.2]

/-! ### what a rendered well-formed piece starts with -/

inductive HeadOf : Piece → Nat → Prop
  | op {c} : isOpChar c = true → HeadOf (.op c) c
  | sp : HeadOf .sp 32
  | nl {k} : HeadOf (.nl k) 10
  | word {w x} : isIdStart x = true → HeadOf (.word w) x
  | gname {p i x} : isIdStart x = true → HeadOf (.gname p i) x
  | key {k x} : (x = 39 ∨ x = 34) → HeadOf (.key k) x
  | int {d x} : isDigit x = true → HeadOf (.int d) x
  | comment {t} : HeadOf (.comment t) 35

theorem chooseQuote_cases (s : Str) : chooseQuote s = 39 ∨ chooseQuote s = 34 := by
  unfold chooseQuote; split <;> simp

theorem piece_head (printable : Nat → Bool) (b : Piece) (hb : b.ok) :
    ∃ x tl, b.render printable = x :: tl ∧ HeadOf b x := by
  cases b with
  | op c => exact ⟨c, [], rfl, .op hb⟩
  | sp => exact ⟨32, [], rfl, .sp⟩
  | nl k => exact ⟨10, _, rfl, .nl⟩
  | word w =>
    cases w with
    | nil => exact absurd hb (by simp [Piece.ok, identLike])
    | cons h t => exact ⟨h, t, rfl, .word hb.1⟩
  | gname p i =>
    cases p with
    | nil => exact absurd hb.1 (by simp [identLike])
    | cons h t => exact ⟨h, t ++ i, rfl, .gname hb.1.1⟩
  | key k => exact ⟨chooseQuote k, _, rfl, .key (chooseQuote_cases k)⟩
  | int d =>
    cases d with
    | nil => exact absurd hb (by simp [Piece.ok])
    | cons h t => exact ⟨h, t, rfl, .int hb.1⟩
  | comment t => exact ⟨35, t, rfl, .comment⟩

theorem render_cons (printable : Nat → Bool) (a : Piece) (t : List Piece) :
    render printable (a :: t) = a.render printable ++ render printable t := by
  simp [render, List.flatMap_cons]

/-- first character of a non-empty rendered well-formed list -/
theorem render_head (printable : Nat → Bool) (b : Piece) (t : List Piece) (hb : b.ok) :
    ∃ x tl, render printable (b :: t) = x :: tl ∧ HeadOf b x := by
  obtain ⟨x, tl, h, hh⟩ := piece_head printable b hb
  exact ⟨x, tl ++ render printable t, by simp [render_cons, h], hh⟩

theorem WFList_head_ok : ∀ {b : Piece} {t : List Piece}, WFList (b :: t) → b.ok
  | _, [], h => h
  | _, _ :: _, h => h.1

theorem identLike_of_B {w : Str} (h : identLikeB w = true) : identLike w := by
  cases w with
  | nil => simp [identLikeB] at h
  | cons c t =>
    simp only [identLikeB, Bool.and_eq_true, List.all_eq_true] at h
    exact ⟨h.1, h.2⟩

theorem identLike_append {p i : Str} (hp : identLike p) (hi : ∀ c ∈ i, isIdCont c = true) : identLike (p ++ i) := by
  cases p with
  | nil => exact absurd hp (by simp [identLike])
  | cons h tl =>
    refine ⟨hp.1, ?_⟩
    intro c hc
    rcases List.mem_append.mp hc with hc | hc
    · exact hp.2 c hc
    · exact hi c hc

/-! ### one step of the tokenizer per kind of piece -/

theorem lex_sp (f : Nat) (R : Str) : lexToks (f + 1) (32 :: R) = lexToks f R := by
  simp [lexToks]

theorem lex_op (f : Nat) (c : Nat) (hc : isOpChar c = true) (R : Str) (ts : List Tok)
    (h : lexToks f R = some ts) : lexToks (f + 1) (c :: R) = some (Tok.op c :: ts) := by
  obtain ⟨h1, h2, h3, h4, h5, h6, h7, _⟩ := op_facts' hc
  have hq : ¬ (c = 39 ∨ c = 34) := by omega
  simp [lexToks, h1, h2, h3, hq, h6, h7, hc, h]

theorem lex_nl (f k : Nat) (R : Str) (ts : List Tok) (hR : ∀ x, R.head? = some x → x ≠ 32)
    (h : lexToks f R = some ts) :
    lexToks (f + 1) (10 :: (List.replicate k 32 ++ R)) = some (Tok.nl k :: ts) := by
  have hrun := takeWhile_run (· == 32) (List.replicate k 32) R
    (by intro x hx; simp [List.mem_replicate] at hx; simp [hx.2])
    (by intro x hx; have := hR x hx; simp [this])
  simp [lexToks, hrun.1, hrun.2, h]

theorem lex_comment (f : Nat) (t R : Str) (ts : List Tok) (ht : ∀ c ∈ t, c ≠ 10)
    (hR : ∀ x, R.head? = some x → x = 10) (h : lexToks f R = some ts) :
    lexToks (f + 1) (35 :: (t ++ R)) = some (Tok.comment :: ts) := by
  have hrun := takeWhile_run (· != 10) t R
    (by intro x hx; simp [ht x hx])
    (by intro x hx; simp [hR x hx])
  simp [lexToks, hrun.2, h]

theorem lex_word (f : Nat) (w R : Str) (ts : List Tok) (hw : identLike w)
    (hR : ∀ x, R.head? = some x → isIdCont x = false) (h : lexToks f R = some ts) :
    lexToks (f + 1) (w ++ R) = some (Tok.name w :: ts) := by
  cases w with
  | nil => exact absurd hw (by simp [identLike])
  | cons c t =>
    obtain ⟨h1, h2, h3, h4, h5, _⟩ := idStart_facts hw.1
    have hq : ¬ (c = 39 ∨ c = 34) := by omega
    have hrun := takeWhile_run isIdCont t R hw.2 hR
    simp [lexToks, h1, h2, h3, hq, hw.1, hrun.1, hrun.2, h]

theorem lex_int (f : Nat) (d R : Str) (ts : List Tok)
    (hd : match d with | [] => False | h :: t => isDigit h = true ∧ ∀ c ∈ t, isDigit c = true)
    (hR : ∀ x, R.head? = some x → isIdCont x = false) (h : lexToks f R = some ts) :
    lexToks (f + 1) (d ++ R) = some (Tok.num d :: ts) := by
  cases d with
  | nil => exact absurd hd (by simp)
  | cons c t =>
    obtain ⟨h1, h2, h3, h4, h5, h6, _⟩ := digit_facts hd.1
    have hq : ¬ (c = 39 ∨ c = 34) := by omega
    have hrun := takeWhile_run isIdCont t R (fun x hx => (digit_facts (hd.2 x hx)).2.2.2.2.2.2) hR
    simp [lexToks, h1, h2, h3, hq, h6, hd.1, hrun.1, hrun.2, h]

/-! ### literal sequences of keys -/

theorem keySeqTail_wf (close : Nat) (hc : isOpChar close = true) :
    ∀ (ks : List Str) (k : Str), Str.WF k → (∀ x ∈ ks, Str.WF x) → WFList (Piece.key k :: keySeqTail close ks) := by
  intro ks
  induction ks with
  | nil => intro k hk _; exact ⟨hk, rfl, hc⟩
  | cons k' t ih =>
    intro k hk hall
    have hk' : Str.WF k' := hall k' (by simp)
    have := ih k' hk' (fun x hx => hall x (List.mem_cons_of_mem _ hx))
    exact ⟨hk, rfl, (by decide : isOpChar 44 = true), rfl, trivial, rfl, this⟩

theorem keySeqTail_toks (close : Nat) : ∀ (ks : List Str),
    (keySeqTail close ks).filterMap Piece.toTok = ks.flatMap (fun k' => [Tok.op 44, Tok.str k']) ++ [Tok.op close] := by
  intro ks
  induction ks with
  | nil => rfl
  | cons k t ih => simp [keySeqTail, Piece.toTok, List.filterMap_cons, ih]

/-! ### skeleton of the tokens of a piece list -/

/-- with pairwise prefix-incomparable families, the family found for `p ++ i` is `p` -/
theorem find_family (fams : List Str) (hpw : pairwiseB (fun p q => !comparable p q) fams = true)
    (p i : Str) (hp : p ∈ fams) : fams.find? (fun q => q.isPrefixOf (p ++ i)) = some p := by
  cases hf : fams.find? (fun q => q.isPrefixOf (p ++ i)) with
  | none =>
    have := List.find?_eq_none.mp hf p hp
    simp [isPrefixOf_append_self] at this
  | some q =>
    have hq := List.mem_of_find?_eq_some hf
    have hqp : q.isPrefixOf (p ++ i) = true := by
      have := List.find?_some hf
      simpa using this
    by_cases hqe : q = p
    · rw [hqe]
    · exfalso
      have hcmp : comparable q p = true := by
        rw [List.isPrefixOf_iff_prefix] at hqp
        obtain ⟨r, hr⟩ := hqp
        exact append_eq_append_comparable hr
      have := pairwiseB_spec (fun p q => !comparable p q)
        (by intro x y; simp [comparable_comm]) fams hpw q hq p hp hqe
      simp [hcmp] at this

/-- the skeleton of the tokens of a piece list depends on the shape only -/
theorem skel_pieces (fams : List Str) (hpw : pairwiseB (fun p q => !comparable p q) fams = true) :
    ∀ (ps ps' : List Piece), sameShapeList ps ps' →
      (∀ p i, Piece.gname p i ∈ ps → p ∈ fams) →
      skeleton fams (ps.filterMap Piece.toTok) = skeleton fams (ps'.filterMap Piece.toTok) := by
  intro ps
  induction ps with
  | nil =>
    intro ps' h _
    cases ps' with
    | nil => rfl
    | cons b t' => exact absurd h (by simp [sameShapeList])
  | cons a t ih =>
    intro ps' h hg
    cases ps' with
    | nil => exact absurd h (by simp [sameShapeList])
    | cons b t' =>
      obtain ⟨hab, ht⟩ := h
      have iht := ih t' ht (fun p i hm => hg p i (List.mem_cons_of_mem _ hm))
      cases a <;> cases b <;> simp only [sameShape] at hab
      case op.op c c' => subst hab; simp [Piece.toTok, skeleton] at iht ⊢; exact iht
      case sp.sp => simp [Piece.toTok, skeleton] at iht ⊢; exact iht
      case nl.nl k k' => subst hab; simp [Piece.toTok, skeleton] at iht ⊢; exact iht
      case word.word w w' => subst hab; simp [Piece.toTok, skeleton] at iht ⊢; exact iht
      case gname.gname p i p' i' =>
        subst hab
        have hp : p ∈ fams := hg p i (by simp)
        simp [Piece.toTok, skeleton, skelTok, find_family fams hpw p i hp, find_family fams hpw p i' hp] at iht ⊢
        exact iht
      case key.key k k' => simp [Piece.toTok, skeleton, skelTok] at iht ⊢; exact iht
      case int.int d d' => subst hab; simp [Piece.toTok, skeleton] at iht ⊢; exact iht
      case comment.comment x x' => simp [Piece.toTok, skeleton, skelTok] at iht ⊢; exact iht

theorem sameShapeList_gname : ∀ (ps ps' : List Piece), sameShapeList ps ps' →
    ∀ p i', Piece.gname p i' ∈ ps' → ∃ i, Piece.gname p i ∈ ps := by
  intro ps
  induction ps with
  | nil =>
    intro ps' h p i' hm
    cases ps' with
    | nil => cases hm
    | cons b t' => exact absurd h (by simp [sameShapeList])
  | cons a t ih =>
    intro ps' h p i' hm
    cases ps' with
    | nil => cases hm
    | cons b t' =>
      obtain ⟨hab, ht⟩ := h
      rcases List.mem_cons.mp hm with hm | hm
      · subst hm
        cases a <;> simp only [sameShape] at hab
        case gname q i => subst hab; exact ⟨i, by simp⟩
      · obtain ⟨i, hi⟩ := ih t' ht p i' hm
        exact ⟨i, List.mem_cons_of_mem _ hi⟩

end Adaptix.Gen
