import AdaptixModel.Ops.C18
def main : IO Unit := Adaptix.Protocol.serve Adaptix.Ops.C18.handle
