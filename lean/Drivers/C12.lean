import AdaptixModel.Ops.C12
def main : IO Unit := Adaptix.Protocol.serve Adaptix.Ops.C12.handle
