import AdaptixModel.Ops.C08
def main : IO Unit := Adaptix.Protocol.serve Adaptix.Ops.C08.handle
