import AdaptixModel.Ops.C17
def main : IO Unit := Adaptix.Protocol.serve Adaptix.Ops.C17.handle
