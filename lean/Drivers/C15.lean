import AdaptixModel.Ops.C15
def main : IO Unit := Adaptix.Protocol.serve Adaptix.Ops.C15.handle
