import AdaptixModel.Ops.C10
def main : IO Unit := Adaptix.Ops.C10.serve
