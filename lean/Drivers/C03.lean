import AdaptixModel.Protocol
/- placeholder: the model driver of this property group is not built yet -/
def main : IO Unit := Adaptix.Protocol.serve (fun _ => .error "driver not implemented")
