import AdaptixModel.Ops.C03
def main : IO Unit := Adaptix.Protocol.serve Adaptix.Ops.C03.handle
