import AdaptixModel.Ops.C03
import AdaptixModel.Ops.NameStyle
open Lean in
def dispatch : Adaptix.Protocol.Handler := fun j =>
  match j.getObjVal? "op" with
  | .ok (Json.str "ns_convert") => Adaptix.Ops.NameStyle.handle j
  | _ => Adaptix.Ops.C03.handle j
def main : IO Unit := Adaptix.Protocol.serve dispatch
