import AdaptixModel.Ops.C13
def main : IO Unit := Adaptix.Protocol.serve Adaptix.Ops.C13.handle
