import AdaptixModel.Ops.C11
def main : IO Unit := Adaptix.Protocol.serve Adaptix.Ops.C11.handle
