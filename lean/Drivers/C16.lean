import AdaptixModel.Ops.C16
def main : IO Unit := Adaptix.Protocol.serve Adaptix.Ops.C16.handle
