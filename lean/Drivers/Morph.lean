import AdaptixModel.Ops.Morph
import AdaptixModel.Ops.C20
import AdaptixModel.Ops.Codec
open Lean in
def dispatch : Adaptix.Protocol.Handler := fun j =>
  match j.getObjVal? "op" with
  | .ok (Json.str op) =>
    if op == "load_prov" || op == "dump_prov" || op == "load_alloc" || op == "dump_alloc" then Adaptix.Ops.C20.handle j
    else if op.startsWith "b64_" then Adaptix.Ops.Codec.handle j
    else Adaptix.Ops.Morph.handle j
  | _ => .error "missing op"
def main : IO Unit := Adaptix.Protocol.serve dispatch
