import AdaptixModel.Ops.Morph
def main : IO Unit := Adaptix.Protocol.serve Adaptix.Ops.Morph.handle
