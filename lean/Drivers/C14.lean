import AdaptixModel.Ops.C14
def main : IO Unit := Adaptix.Protocol.serve Adaptix.Ops.C14.handle
