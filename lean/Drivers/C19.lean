import AdaptixModel.Ops.C19
def main : IO Unit := Adaptix.Protocol.serve Adaptix.Ops.C19.handle
