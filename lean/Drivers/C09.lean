import AdaptixModel.Ops.C09
def main : IO Unit := Adaptix.Protocol.serve Adaptix.Ops.C09.handle
