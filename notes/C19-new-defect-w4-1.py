"""C19 new defect (wave 4, #1): a string constant that contains a newline is changed by the converter generator.

    link_constant(P[Dst].b, value="line1\nline2")

The generated coercer does not yield the string that was given but "line1\n        line2": the text of the value is not
treated as data, it takes part in the LAYOUT of the generated source and is re-indented with it.

Root cause: conversion/broaching/code_generator.py, `_gen_constant_element`

    expr = get_literal_expr(element.value)        # "'line1\\nline2'"  (repr: one line, correct)
    if expr is not None:
        return ast.parse(expr)                    # <- an ast.Module, not an expression

`ast.parse(text)` returns a *Module* whose only statement is the string expression.  When the plan is unparsed
(`produce_code`: `builder += "return " + ast.unparse(body)`), `ast.unparse` treats the first string statement of a Module as
a DOCSTRING and writes it triple-quoted with the newline raw; `CodeBuilder` then indents every line of the text it is
given - also the ones inside the literal.  (`_gen_function_element` has the same `ast.parse(literal)` for literal factories;
harmless there, `[]` / `{}` contain no strings.)

Smallest fix:

    -            return ast.parse(expr)
    +            return ast.parse(expr, mode="eval").body
    ...
    -                return ast.parse(literal)
    +                return ast.parse(literal, mode="eval").body

Exit code 1 while the defect is present, 0 when it is fixed.  Uses the public API only.
"""
import os
import sys

sys.path.insert(0, os.path.join(os.environ.get("VERIF_REPO", "/repo"), "src"))

from dataclasses import dataclass  # noqa: E402

from adaptix import P  # noqa: E402
from adaptix.conversion import get_converter, impl_converter, link_constant  # noqa: E402


@dataclass
class Src:
    a: int


@dataclass
class Dst:
    a: int
    b: str


failures = []
for text in ["line1\nline2", "\n", "a\n\nb", "it's\n\"quoted\"", "tab\tand\rcr stay intact"]:
    conv = get_converter(Src, Dst, recipe=[link_constant(P[Dst].b, value=text)])
    got = conv(Src(a=1)).b
    print(f"value {text!r:32} -> converted {got!r}")
    if got != text:
        failures.append((text, got))


@impl_converter(recipe=[link_constant(P[Dst].b, value="x\ny")])
def stub(src: Src) -> Dst:
    ...


got = stub(Src(a=1)).b
print(f"impl_converter: value 'x\\ny' -> converted {got!r}")
if got != "x\ny":
    failures.append(("x\ny", got))

if failures:
    print(f"\nFAIL: {len(failures)} constant(s) were changed on their way through the generated code")
    sys.exit(1)
print("\nall constants arrive unchanged")
