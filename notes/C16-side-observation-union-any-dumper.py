"""Side observation made while strengthening C16 (NOT a violation of C16: no generic model is needed).

Dumping through a union that has `Any` next to a case with a non-trivial dumper raises KeyError for every value that
is not an instance of the other case:

    Retort().dump("x", Union[Any, list[int]])      -> KeyError: <class 'str'>
    Retort().dump("x", Union[Any, dict[str, int]]) -> KeyError: <class 'str'>
    Retort().dump("x", Union[Any, int])            -> "x"   (all case dumpers are as-is: no dispatch happens)

Cause: src/adaptix/_internal/morphing/generic_provider.py, UnionProvider._make_dumper builds
`ClassDispatcher({case.origin: dumper})`.  Since Python 3.11 `typing.Any` is a class, so it passes
`_is_class_origin` and becomes a key of the dispatcher, but it is in no value's `type(data).mro()` and
`is_subclass_soft(str, Any)` is False, so `_dispatch_dumper` re-raises the KeyError.

Smallest fix: register the `Any` case under `object` (the root of every mro):

    -            {type(None) if case.origin is None else case.origin: dumper for case, dumper in zip(norm.args, dumpers)},
    +            {
    +                type(None) if case.origin is None else object if case.origin is Any else case.origin: dumper
    +                for case, dumper in zip(norm.args, dumpers)
    +            },

It shows up with generics as `class M(Generic[T]): x: Union[T, list[int]]` used bare (implicit parameter Any); the
C16 generators therefore never put a bare TypeVar operand next to a container operand of a union.
"""
import sys
from typing import Any, Union

from adaptix import Retort

retort = Retort()
bad = 0
for tp, value in [(Union[Any, int], "x"), (Union[Any, list[int]], [1]), (Union[Any, list[int]], "x"),
                  (Union[Any, dict[str, int]], "x")]:
    try:
        print(f"dump({value!r}, {tp}) -> {retort.dump(value, tp)!r}")
    except KeyError as e:
        bad += 1
        print(f"dump({value!r}, {tp}) raises KeyError({e})")
sys.exit(1 if bad else 0)
