"""C19 new defect 1: a NUL character in the name of a converter breaks generation.

The name of a converter (get_converter(..., name=...), or __name__ of an impl_converter stub) is data:
any str is a legal value of __name__.  The generated function itself is fine (the name is sanitized
before it is written after `def`, and stored with repr() as __name__), but the same raw text is used
as the base of the FILE NAME handed to compile():

    conversion/converter_provider.py  _get_file_name()        -> request.function_name / stub.__name__  (raw)
    morphing/model/basic_gen.py       compile_closure_with_globals_capturing(file_name=...)
    code_tools/compiler.py:85         self._compile(source, filename_maker(unique_id), namespace)
    code_tools/compiler.py:58         compile(source, unique_filename, "exec")   -> ValueError: embedded null character

Run:  /venv/bin/python notes/C19-new-defect-1.py        (exit 1 while the defect is present)
      VERIF_REPO=<tree> selects another source tree.
"""
import os
import sys
from dataclasses import dataclass

sys.path.insert(0, os.path.join(os.environ.get("VERIF_REPO", "/repo"), "src"))

from adaptix.conversion import get_converter, impl_converter  # noqa: E402


@dataclass
class Src:
    x: int


@dataclass
class Dst:
    x: int


failures = []
for name in ["a b", "a\nb", "a\x01b", "a\x00b", "\x00"]:
    try:
        conv = get_converter(Src, Dst, name=name)
        assert conv(Src(1)) == Dst(1)
        assert conv.__name__ == name
        print(f"ok   get_converter(name={name!r})")
    except Exception as e:  # noqa: BLE001
        failures.append(name)
        print(f"FAIL get_converter(name={name!r}): {type(e).__name__}: {e}")


def stub(src: Src) -> Dst:
    ...


stub.__name__ = "conv\x00"
try:
    conv = impl_converter(stub)
    assert conv(Src(2)) == Dst(2)
    print("ok   impl_converter(stub named 'conv\\x00')")
except Exception as e:  # noqa: BLE001
    failures.append(stub.__name__)
    print(f"FAIL impl_converter(stub named 'conv\\x00'): {type(e).__name__}: {e}")

sys.exit(1 if failures else 0)
