"""Reproducer (public API only) of the defect behind the thorough-tier alarm C13-0d16db29ab3d.

    python notes/C13-new-defect-thorough.py [path-to-adaptix-src]      (default /repo/src)

exit 1: the defect is present (unrepaired tree), exit 0: it is not.

A nested model `Inner` is converted to itself.  The recipe makes that conversion impossible:
  * variant "function": `link_function(func, P[Inner].b)` where `func` has a keyword-only parameter `missing`
    that names no field of the source model - the documented rule ("keyword-only parameters are linked to model
    fields by name") leaves `Inner.b` without a link;
  * variant "coercer": `link("a", P[Inner].b)` links an `int` field to a `str` field - no coercer exists.
With the field declared as `Inner`, `Optional[Inner]` or `list[Inner]` adaptix refuses (ProviderNotFoundError).
With the field declared `Annotated[Inner, "meta"]` (likewise `NotRequired[Inner]` / `Required[Inner]` of a
TypedDict) on both sides a converter IS produced: it returns the very same nested object and ignores every recipe
entry for the nested fields (`link_constant(P[Inner].a, value=0)` is not applied either) - although with a recipe
that can be satisfied the same tagged field is rebuilt field by field.

Cause: src/adaptix/_internal/conversion/coercer_provider.py, TypeHintTagsUnwrappingProvider._provide_coercer asks
for the coercer of the unwrapped pair with `mediator.delegating_provide`, which re-raises every failure as a
NON-terminal CannotProvide.  The terminal refusal of ModelCoercerProvider for Inner -> Inner is lost, the request bus
(retort/request_bus.py BasicRequestBus._send_inner) moves on to SameTypeCoercerProvider, and
`Annotated[Inner, "meta"] == Annotated[Inner, "meta"]` yields `as_is_stub_with_ctx`.
"""
import sys

sys.path.insert(0, sys.argv[1] if len(sys.argv) > 1 else "/repo/src")

from dataclasses import dataclass  # noqa: E402
from typing import Annotated, List, NotRequired, Optional, TypedDict  # noqa: E402

from adaptix import P, ProviderNotFoundError  # noqa: E402
from adaptix.conversion import get_converter, link, link_constant, link_function  # noqa: E402


@dataclass
class Inner:
    a: int
    b: int


@dataclass
class InnerS:
    a: int
    b: str


def func(model, *, missing):
    return 7


def attempt(inner_cls, hint, recipe, typed_dict=False):
    """-> "refused" | (converted nested value, it is the source's own object)"""
    if typed_dict:
        class Src(TypedDict):
            inner: hint
        Dst = Src
        make, read = (lambda x: {"inner": x}), (lambda m: m["inner"])
    else:
        @dataclass
        class Src:
            inner: hint

        @dataclass
        class Dst:
            inner: hint
        make, read = Src, (lambda m: m.inner)
    try:
        conv = get_converter(Src, Dst, recipe=recipe)
    except ProviderNotFoundError:
        return "refused"
    value = inner_cls(1, 2) if inner_cls is Inner else inner_cls(1, "x")
    src = make([value] if hint is List[inner_cls] else value)
    got = read(conv(src))
    return got, got is read(src)


def main():
    bad = 0
    variants = {
        "function": (Inner, [link_constant(P[Inner].a, value=0), link_function(func, P[Inner].b)]),
        "coercer": (InnerS, [link_constant(P[InnerS].a, value=0), link("a", P[InnerS].b)]),
    }
    for vname, (cls, recipe) in variants.items():
        for label, hint, td in [
            ("Inner", cls, False),
            ("Optional[Inner]", Optional[cls], False),
            ("List[Inner]", List[cls], False),
            ("Annotated[Inner, 'meta']", Annotated[cls, "meta"], False),
            ("TypedDict NotRequired[Inner]", NotRequired[cls], True),
        ]:
            res = attempt(cls, hint, recipe, td)
            ok = res == "refused"
            bad += not ok
            print(f"{vname:9} {label:30} {'refused (as documented)' if ok else f'CONVERTER PRODUCED -> {res[0]!r}, same object: {res[1]}'}")
    # control: a satisfiable recipe is applied below the tag (the nested model is rebuilt, not passed as is)
    res = attempt(Inner, Annotated[Inner, "meta"], [link_constant(P[Inner].a, value=0)])
    print(f"control   Annotated[Inner, 'meta'] with a satisfiable recipe -> {res}")
    if res == "refused" or res[0] != Inner(0, 2) or res[1]:
        bad += 1
    return 1 if bad else 0


if __name__ == "__main__":
    sys.exit(main())
