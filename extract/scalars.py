"""Translator: scalar loader closures of the working tree  ->  mini-Python terms in Lean.

For every scalar type of the builtin recipe and both coercion modes the *live*
loader is obtained from a real Retort of the tree under test; its defining
`def` is located through the code object (file + first line) and its body is
translated into the deep embedding of `AdaptixModel/MiniPy/Syntax.lean`.
Anything outside the supported subset raises ExtractError (a broken tie that
./check reports; never a silent skip).

Output: lean/AdaptixModel/Generated/Scalars.lean  (rewritten on every run)
Also used in-process by the harness (`closure_table`, `site_outcomes`).
"""
import ast
import collections
import datetime
import decimal
import enum
import fractions
import inspect
import io
import ipaddress
import json
import pathlib
import re
import types
import typing
import uuid
from pathlib import Path


class ExtractError(Exception):
    pass


# --------------------------------------------------------------------------------------
# scalar type pool (name in the model -> real type)
# --------------------------------------------------------------------------------------

def scalar_pool():
    return {
        "none": type(None), "int": int, "float": float, "str": str, "bool": bool,
        "decimal": decimal.Decimal, "fraction": fractions.Fraction, "complex": complex,
        "datetime": datetime.datetime, "date": datetime.date, "time": datetime.time,
        "timedelta": datetime.timedelta,
        "bytes": bytes, "bytearray": bytearray, "bytesio": io.BytesIO, "iobytes": typing.IO[bytes],
        "pattern": re.Pattern, "literalstring": typing.LiteralString,
        "uuid": uuid.UUID,
        "ipv4address": ipaddress.IPv4Address, "ipv6address": ipaddress.IPv6Address,
        "ipv4network": ipaddress.IPv4Network, "ipv6network": ipaddress.IPv6Network,
        "ipv4interface": ipaddress.IPv4Interface, "ipv6interface": ipaddress.IPv6Interface,
        "purepath": pathlib.PurePath, "path": pathlib.Path,
        "pureposixpath": pathlib.PurePosixPath, "posixpath": pathlib.PosixPath,
        "purewindowspath": pathlib.PureWindowsPath,
        "pathlike": __import__("os").PathLike[str],
    }


def exc_name(cls) -> str:
    if cls.__module__ in ("builtins",):
        return cls.__name__
    if cls.__module__.startswith("adaptix"):
        return cls.__name__
    return f"{cls.__module__}.{cls.__name__}"


def type_name(cls) -> str:
    if cls is type(None):
        return "NoneType"
    if cls.__module__ == "builtins":
        return cls.__name__
    return f"{cls.__module__}.{cls.__qualname__}"


# --------------------------------------------------------------------------------------
# locating and translating a closure
# --------------------------------------------------------------------------------------

_AST_CACHE: dict[str, ast.Module] = {}


def _module_ast(filename: str) -> ast.Module:
    if filename not in _AST_CACHE:
        _AST_CACHE[filename] = ast.parse(Path(filename).read_text(), filename)
    return _AST_CACHE[filename]


def find_def(fn: types.FunctionType) -> ast.FunctionDef:
    code = fn.__code__
    tree = _module_ast(code.co_filename)
    for node in ast.walk(tree):
        if isinstance(node, (ast.FunctionDef, ast.Lambda)) and node.lineno == code.co_firstlineno:
            if isinstance(node, ast.FunctionDef) and node.name == code.co_name:
                return node
    raise ExtractError(f"cannot locate def of {code.co_name} at {code.co_filename}:{code.co_firstlineno}")


def closure_env(fn: types.FunctionType) -> dict:
    env = dict(fn.__globals__)
    if fn.__closure__:
        for name, cell in zip(fn.__code__.co_freevars, fn.__closure__):
            try:
                env[name] = cell.cell_contents
            except ValueError:
                pass
    return env


class Translator:
    """FunctionDef -> JSON term mirroring the Lean inductive types."""

    def __init__(self, fn: types.FunctionType):
        self.fn = fn
        self.node = find_def(fn)
        args = self.node.args
        if len(args.args) != 1 or args.vararg or args.kwarg or args.kwonlyargs:
            raise ExtractError(f"{fn.__name__}: closure must take exactly one positional argument")
        self.param = args.args[0].arg
        self.env = closure_env(fn)
        self.sites: list[str] = []
        self.site_nodes: dict[str, ast.expr] = {}
        self.exc_classes: set = set()
        self.type_classes: set = set()

    # ---- helpers -----------------------------------------------------------------
    def err(self, node, what):
        raise ExtractError(f"{self.fn.__code__.co_filename}:{getattr(node, 'lineno', '?')} "
                           f"{self.fn.__name__}: unsupported {what}: {ast.unparse(node)[:120]}")

    def resolve(self, node):
        try:
            return eval(compile(ast.Expression(node), "<resolve>", "eval"), self.env)  # noqa: S307
        except Exception as e:
            self.err(node, f"name resolution ({e})")

    def is_param(self, node):
        return isinstance(node, ast.Name) and node.id == self.param

    def is_type_of_param(self, node):
        return (isinstance(node, ast.Call) and isinstance(node.func, ast.Name) and node.func.id == "type"
                and len(node.args) == 1 and self.is_param(node.args[0]) and not node.keywords)

    def class_names(self, node) -> list[str]:
        obj = self.resolve(node)
        objs = list(obj) if isinstance(obj, (tuple, list, set, frozenset)) else [obj]
        out = []
        for o in objs:
            if not isinstance(o, type):
                self.err(node, "class expression")
            self.type_classes.add(o)
            out.append(type_name(o))
        return out

    def site(self, node: ast.expr) -> str:
        name = ast.unparse(node)
        if name not in self.site_nodes:
            self.sites.append(name)
            self.site_nodes[name] = node
        return name

    # ---- tests -------------------------------------------------------------------
    def test(self, node, neg=False):
        if isinstance(node, ast.UnaryOp) and isinstance(node.op, ast.Not):
            return self.test(node.operand, not neg)
        if isinstance(node, ast.Compare) and len(node.ops) == 1:
            op, left, right = node.ops[0], node.left, node.comparators[0]
            if self.is_type_of_param(left) and isinstance(op, (ast.Is, ast.IsNot, ast.In, ast.NotIn)):
                n = neg != isinstance(op, (ast.IsNot, ast.NotIn))
                return {"t": "typeIn", "names": self.class_names(right), "neg": n}
            if self.is_param(left) and isinstance(op, (ast.Is, ast.IsNot)) \
                    and isinstance(right, ast.Constant) and right.value is None:
                return {"t": "isNone", "neg": neg != isinstance(op, ast.IsNot)}
        if isinstance(node, ast.Call) and isinstance(node.func, ast.Name) and node.func.id == "isinstance" \
                and len(node.args) == 2 and self.is_param(node.args[0]):
            return {"t": "isInstance", "names": self.class_names(node.args[1]), "neg": neg}
        if isinstance(node, ast.Call):
            return {"t": "site", "name": self.site(node), "neg": neg}
        self.err(node, "test")

    # ---- statements ----------------------------------------------------------------
    def block(self, stmts):
        return [self.stmt(s) for s in stmts if not self._is_docstring(s)]

    @staticmethod
    def _is_docstring(s):
        return isinstance(s, ast.Expr) and isinstance(s.value, ast.Constant) and isinstance(s.value.value, str)

    def stmt(self, s):
        if isinstance(s, ast.If):
            return {"s": "if", "test": self.test(s.test), "then": self.block(s.body), "else": self.block(s.orelse)}
        if isinstance(s, ast.Return):
            v = s.value
            if v is None or (isinstance(v, ast.Constant) and v.value is None):
                return {"s": "ret", "e": {"e": "none"}}
            if self.is_param(v):
                return {"s": "ret", "e": {"e": "data"}}
            if any(isinstance(n, ast.Call) for n in ast.walk(v)):
                return {"s": "ret", "e": {"e": "site", "name": self.site(v)}}
            self.err(s, "return expression")
        if isinstance(s, ast.Raise):
            if s.exc is None:
                self.err(s, "bare re-raise")
            target = s.exc.func if isinstance(s.exc, ast.Call) else s.exc
            cls = self.resolve(target)
            if not (isinstance(cls, type) and issubclass(cls, BaseException)):
                self.err(s, "raise of a non-class")
            self.exc_classes.add(cls)
            return {"s": "raise", "cls": exc_name(cls)}
        if isinstance(s, ast.Assign) and len(s.targets) == 1 and isinstance(s.targets[0], ast.Name):
            if s.targets[0].id == self.param:
                self.err(s, "assignment to the datum parameter")
            if any(isinstance(n, ast.Call) for n in ast.walk(s.value)):
                return {"s": "assign", "site": self.site(s.value)}
            return {"s": "assign", "site": self.site(s.value)}
        if isinstance(s, ast.Try):
            if s.orelse or s.finalbody:
                self.err(s, "try/else/finally")
            hs = []
            for h in s.handlers:
                if h.type is None:
                    self.err(h, "bare except")
                cls = self.resolve(h.type)
                classes = list(cls) if isinstance(cls, tuple) else [cls]
                for c in classes:
                    if not (isinstance(c, type) and issubclass(c, BaseException)):
                        self.err(h, "handler class")
                    self.exc_classes.add(c)
                hs.append({"classes": [exc_name(c) for c in classes], "body": self.block(h.body)})
            return {"s": "try", "body": self.block(s.body), "handlers": hs}
        if isinstance(s, ast.Pass):
            return None
        self.err(s, "statement")

    def translate(self):
        body = [x for x in self.block(self.node.body) if x is not None]
        return body


# --------------------------------------------------------------------------------------
# closure table of the working tree
# --------------------------------------------------------------------------------------

def describe_callable(obj) -> str:
    return f"{getattr(obj, '__module__', '?')}.{getattr(obj, '__qualname__', repr(obj))}"


def translate_loader(ld):
    """-> dict(kind, body, sites, exc_classes, type_classes, fn)"""
    if isinstance(ld, types.FunctionType):
        tr = Translator(ld)
        body = tr.translate()
        return {"kind": "def", "src": f"{Path(ld.__code__.co_filename).name}:{ld.__code__.co_name}",
                "body": body, "sites": tr.sites, "site_nodes": tr.site_nodes, "param": tr.param,
                "exc": tr.exc_classes, "types": tr.type_classes, "fn": ld, "env": tr.env}
    if isinstance(ld, (type, types.BuiltinFunctionType, types.MethodType, types.BuiltinMethodType)) or callable(ld):
        # a class or builtin used directly as loader, e.g. `str`, `bool`, `UUID`: one call site
        name = f"{describe_callable(ld)}(data)"
        return {"kind": "callable", "src": describe_callable(ld),
                "body": [{"s": "ret", "e": {"e": "site", "name": name}}], "sites": [name], "site_nodes": {},
                "param": "data", "exc": set(), "types": set(), "fn": ld, "env": {}}
    raise ExtractError(f"loader {ld!r} is neither a def nor a callable")


def closure_table():
    """{(scalar, strict): translated closure} for the tree under test."""
    from adaptix import DebugTrail, Retort
    out = {}
    for strict in (True, False):
        retort = Retort(strict_coercion=strict, debug_trail=DebugTrail.DISABLE)
        for name, tp in scalar_pool().items():
            ld = retort.get_loader(tp)
            out[(name, strict)] = translate_loader(ld)
    return out


# --------------------------------------------------------------------------------------
# executing the call sites of a closure on a datum (used by the harness and the catalogue builder)
# --------------------------------------------------------------------------------------

class _SiteWrapper(ast.NodeTransformer):
    def __init__(self, site_nodes):
        self.ids = {id(n): name for name, n in site_nodes.items()}

    def visit(self, node):
        name = self.ids.get(id(node))
        if name is not None:
            return ast.copy_location(
                ast.Call(func=ast.Name("__site__", ast.Load()),
                         args=[ast.Constant(name), ast.Lambda(
                             args=ast.arguments(posonlyargs=[], args=[], kwonlyargs=[], kw_defaults=[], defaults=[]),
                             body=node)], keywords=[]), node)
        return super().visit(node)


_INSTRUMENTED: dict = {}


def site_outcomes(tc: dict, datum):
    """Run the real closure's call sites on `datum`; -> (site -> ('val'|'falsy'|'raises', payload), final)."""
    log: dict = {}

    def record(name, thunk):
        try:
            v = thunk()
        except Exception as e:  # noqa: BLE001
            log[name] = ("raises", exc_name(type(e)))
            raise
        try:
            truthy = bool(v)
        except Exception:  # noqa: BLE001
            truthy = True
        log[name] = ("val" if truthy else "falsy", v)
        return v

    if tc["kind"] == "callable":
        name = tc["sites"][0]
        try:
            final = ("ret", record(name, lambda: tc["fn"](datum)))
        except Exception as e:  # noqa: BLE001
            final = ("raised", exc_name(type(e)))
        return log, final

    key = tc["fn"]      # the function object itself (not id(): ids are reused once a closure table is garbage collected)
    if key not in _INSTRUMENTED:
        node = find_def(tc["fn"])
        import copy
        node2 = copy.deepcopy(node)
        # re-identify site nodes inside the copy by position
        pos = {(n.lineno, n.col_offset, n.end_lineno, n.end_col_offset): name for name, n in tc["site_nodes"].items()}
        site_nodes2 = {}
        for n in ast.walk(node2):
            k = (getattr(n, "lineno", None), getattr(n, "col_offset", None),
                 getattr(n, "end_lineno", None), getattr(n, "end_col_offset", None))
            if k in pos and isinstance(n, ast.expr) and ast.unparse(n) == pos[k]:
                site_nodes2[pos[k]] = n
        if set(site_nodes2) != set(tc["site_nodes"]):
            raise ExtractError(f"cannot re-identify call sites of {tc['src']}")
        node2.decorator_list = []
        new = _SiteWrapper(site_nodes2).visit(node2)
        mod = ast.Module(body=[new], type_ignores=[])
        ast.fix_missing_locations(mod)
        _INSTRUMENTED[key] = (compile(mod, f"<instrumented {tc['src']}>", "exec"), new.name)
    code, fname = _INSTRUMENTED[key]
    ns = dict(tc["env"])
    ns["__site__"] = record
    exec(code, ns)  # noqa: S102
    try:
        final = ("ret", ns[fname](datum))
    except Exception as e:  # noqa: BLE001
        final = ("raised", exc_name(type(e)))
    return log, final


# --------------------------------------------------------------------------------------
# datum tags / facts
# --------------------------------------------------------------------------------------

class _IntE(enum.IntEnum):
    A = 1


class _StrE(str, enum.Enum):
    A = "a"


class _PlainE(enum.Enum):
    A = "x"


class _Flag(enum.Flag):
    A = 1


def _gen():
    yield 1


def tag_representatives():
    """one representative datum per tag the models distinguish"""
    return {
        "NoneType": None, "bool": True, "int": 1, "float": 1.5, "str": "s", "bytes": b"b",
        "bytearray": bytearray(b"b"), "list": [1], "tuple": (1,), "set": {1}, "frozenset": frozenset({1}),
        "collections.deque": collections.deque([1]), "dict": {"a": 1}, "generator": _gen(),
        "decimal.Decimal": decimal.Decimal("1.5"), "fractions.Fraction": fractions.Fraction(1, 2),
        "complex": 1 + 2j, "datetime.datetime": datetime.datetime(2020, 1, 2, 3, 4, 5),
        "datetime.date": datetime.date(2020, 1, 2), "datetime.time": datetime.time(3, 4, 5),
        "datetime.timedelta": datetime.timedelta(seconds=3), "uuid.UUID": uuid.UUID(int=5),
        "ipaddress.IPv4Address": ipaddress.IPv4Address("1.2.3.4"),
        "ipaddress.IPv6Address": ipaddress.IPv6Address("::1"),
        "ipaddress.IPv4Network": ipaddress.IPv4Network("1.2.3.0/30"),
        "ipaddress.IPv6Network": ipaddress.IPv6Network("::/126"),
        "ipaddress.IPv4Interface": ipaddress.IPv4Interface("1.2.3.4/24"),
        "ipaddress.IPv6Interface": ipaddress.IPv6Interface("::1/64"),
        "pathlib.PosixPath": pathlib.PosixPath("/a/b"), "pathlib.PurePosixPath": pathlib.PurePosixPath("/a/b"),
        "pathlib.PureWindowsPath": pathlib.PureWindowsPath("c:/a"),
        "re.Pattern": re.compile("a+"), "_io.BytesIO": io.BytesIO(b"x"),
        "enum:int": _IntE.A, "enum:str": _StrE.A, "enum:plain": _PlainE.A, "enum:flag": _Flag.A,
        "object": object(),
    }


def tag_of(v) -> str:
    t = type(v)
    if isinstance(v, enum.Enum):
        if isinstance(v, enum.Flag):
            return "enum:flag"
        if isinstance(v, int):
            return "enum:int"
        if isinstance(v, str):
            return "enum:str"
        return "enum:plain"
    name = type_name(t)
    if name in _KNOWN_TAGS:
        return name
    if isinstance(v, types.GeneratorType) or (hasattr(v, "__next__") and not hasattr(v, "__len__")):
        return "generator"
    return "object"


_KNOWN_TAGS = set(tag_representatives())


# --------------------------------------------------------------------------------------
# Lean emission
# --------------------------------------------------------------------------------------

def lstr(s: str) -> str:
    return json.dumps(s, ensure_ascii=True)


def llist(items) -> str:
    return "[" + ", ".join(items) + "]"


def lean_test(t) -> str:
    neg = "true" if t["neg"] else "false"
    if t["t"] == "typeIn":
        return f"(.typeIn {llist(map(lstr, t['names']))} {neg})"
    if t["t"] == "isInstance":
        return f"(.isInstance {llist(map(lstr, t['names']))} {neg})"
    if t["t"] == "isNone":
        return f"(.isNone {neg})"
    return f"(.site {lstr(t['name'])} {neg})"


def lean_block(stmts) -> str:
    out = ".nil"
    for s in reversed(stmts):
        out = f"(.cons {lean_stmt(s)} {out})"
    return out


def lean_handlers(hs) -> str:
    out = ".nil"
    for h in reversed(hs):
        out = f"(.cons {llist(map(lstr, h['classes']))} {lean_block(h['body'])} {out})"
    return out


def lean_stmt(s) -> str:
    k = s["s"]
    if k == "if":
        return f"(.ifS {lean_test(s['test'])} {lean_block(s['then'])} {lean_block(s['else'])})"
    if k == "ret":
        e = s["e"]
        ex = {"data": ".data", "none": ".none"}.get(e["e"]) or f"(.site {lstr(e['name'])})"
        return f"(.ret {ex})"
    if k == "raise":
        return f"(.raiseS {lstr(s['cls'])})"
    if k == "assign":
        return f"(.assign {lstr(s['site'])})"
    if k == "try":
        return f"(.tryS {lean_block(s['body'])} {lean_handlers(s['handlers'])})"
    raise ExtractError(f"unknown stmt {k}")


def isinstance_classes(table) -> list:
    classes = set()
    for tc in table.values():
        classes |= tc["types"]
    return sorted(classes, key=type_name)


def load_error_classes():
    from adaptix import load_error
    out = []
    for n in dir(load_error):
        o = getattr(load_error, n)
        if isinstance(o, type) and issubclass(o, load_error.LoadError):
            out.append(o)
    return out


CATALOGUE_FILE = Path(__file__).resolve().parent / "catalogue.json"


def identity_sites(table):
    """(scalar, site, tag) such that the site of the lax closure returns its datum unchanged on every corpus datum of the tag"""
    from extract import hostile
    seen: dict = {}
    for (name, strict), tc in table.items():
        if strict:
            continue
        for mk in hostile.corpus():
            d = mk()
            tag = tag_of(d)
            log, _final = site_outcomes(tc, d)
            for site, (kind, payload) in log.items():
                same = kind != "raises" and (payload is d or (type(payload) is type(d) and _safe_eq(payload, d)))
                key = (name, site, tag)
                seen[key] = seen.get(key, True) and same
    return sorted(k for k, v in seen.items() if v)


def _safe_eq(a, b) -> bool:
    try:
        return bool(a == b)
    except Exception:  # noqa: BLE001
        return False


def emit(repo: Path, lean_dir: Path):
    """EXTRACT entry point: rewrite Generated/Scalars.lean from the working tree."""
    table = closure_table()
    reps = tag_representatives()
    icls = isinstance_classes(table)
    le = load_error_classes()
    catalogue = json.loads(CATALOGUE_FILE.read_text()) if CATALOGUE_FILE.exists() else {}

    exc_classes = set(le)
    for tc in table.values():
        exc_classes |= tc["exc"]
    # classes named by the catalogue
    import binascii
    import builtins
    named = {exc_name(c): c for c in list(exc_classes)}
    for mod in (builtins, decimal, binascii, re, ipaddress):
        for n in dir(mod):
            o = getattr(mod, n)
            if isinstance(o, type) and issubclass(o, BaseException):
                named.setdefault(exc_name(o), o)
    cat_excs = set()
    for sites in catalogue.values():
        for tags in sites.values():
            for outs in tags.values():
                for o in outs:
                    if o.startswith("raises:"):
                        cat_excs.add(o[7:])
    unknown = sorted(e for e in cat_excs if e not in named)
    if unknown:
        raise ExtractError(f"catalogue names unknown exception classes {unknown}")
    used_excs = {exc_name(c) for c in exc_classes} | cat_excs

    lines = [
        "/- GENERATED by extract/scalars.py from the working tree of /repo on every check run. Do not edit. -/",
        "import AdaptixModel.MiniPy.Syntax",
        "namespace Adaptix.Generated.Scalars",
        "open Adaptix.MiniPy",
        "",
        "/-- exception class ↦ names of its MRO (`except C` catches `e` iff `C ∈ ancestors e`) -/",
        "def excAncestors : String → List String",
    ]
    for n in sorted(used_excs):
        mro = [exc_name(c) for c in named[n].__mro__ if c is not object]
        lines.append(f"  | {lstr(n)} => {llist(map(lstr, mro))}")
    lines.append("  | other => [other, \"Exception\", \"BaseException\"]")
    lines += ["", "/-- the LoadError hierarchy of adaptix.load_error -/",
              f"def loadErrorClasses : List String := {llist(lstr(exc_name(c)) for c in sorted(le, key=exc_name))}", ""]

    lines.append("/-- datum tags with the `isinstance` facts the closures can observe -/")
    lines.append("def tagFacts : List Facts := [")
    rows = []
    for tag, rep in reps.items():
        anc = [type_name(c) for c in icls if isinstance(rep, c)]
        rows.append(f"  {{ tag := {lstr(tag if not tag.startswith('enum:') else tag)}, "
                    f"ancestors := {llist(map(lstr, anc))}, isNone := {'true' if rep is None else 'false'} }}")
    lines.append(",\n".join(rows))
    lines.append("]")
    lines.append("")

    names = []
    for (name, strict), tc in sorted(table.items(), key=lambda kv: (kv[0][0], not kv[0][1])):
        ident = f"{name}_{'strict' if strict else 'lax'}"
        names.append((name, strict, ident, tc))
        lines.append(f"/-- translated loader closure; source: {tc['src']} -/")
        lines.append(f"def prog_{ident} : Block :=\n  {lean_block(tc['body'])}")
        # which outcomes each call site can produce on a datum of a given tag: the stdlib *catalogue*
        lines.append(f"/-- catalogue of {ident}: tag ↦ site ↦ outcome classes (extract/catalogue.json; assumed, fuzz-validated) -/")
        lines.append(f"def cat_{ident} : String → String → List SiteClass")
        sites = catalogue.get(ident, {})
        n_rows = 0
        for tag in reps:
            for site in tc["sites"]:
                outs = sites.get(site, {}).get(tag)
                if outs is None:
                    continue
                ls = [".val" if o == "val" else ".falsy" if o == "falsy" else f".raises {lstr(o[7:])}" for o in outs]
                lines.append(f"  | {lstr(tag)}, {lstr(site)} => {llist(ls)}")
                n_rows += 1
        lines.append("  | _, _ => []")
        lines.append("")
    from adaptix import Retort
    from adaptix._internal.special_cases_optimization import as_is_stub
    r0 = Retort()
    as_is = [n for n, tp in scalar_pool().items() if r0.get_dumper(tp) is as_is_stub]
    lines.append("/-- scalars whose dumper is the identity (`as_is_stub`) in the working tree -/")
    lines.append(f"def asIsDumpScalars : List String := {llist(map(lstr, as_is))}")
    lines.append("")
    lines.append("/-- scalar name ↦ class tag of its origin (key of the union dumper's ClassDispatcher) -/")
    lines.append("def scalarClass : String → String")
    for n, tp in scalar_pool().items():
        if isinstance(tp, type):
            lines.append(f"  | {lstr(n)} => {lstr(type_name(tp))}")
    lines.append("  | other => other")
    lines.append("")
    lines.append("/-- (scalar, call site of its LAX closure, datum tag): on every corpus datum of that tag the call returns the datum")
    lines.append("    itself (`int(x)` of an exact int, `str(x)` of an exact str, `Decimal(x)` of a Decimal ...). Observed on this run. -/")
    lines.append("def identitySites : List (String × String × String) := [")
    lines.append(",\n".join(f"  ({lstr(a)}, {lstr(b)}, {lstr(c)})" for a, b, c in identity_sites(table)))
    lines.append("]")
    lines.append("")
    lines.append("/-- (scalar, strict) ↦ (program, catalogue) -/")
    lines.append("def closures : List ((String × Bool) × Block × (String → String → List SiteClass)) := [")
    lines.append(",\n".join(f"  (({lstr(n)}, {'true' if s else 'false'}), prog_{i}, cat_{i})" for n, s, i, _ in names))
    lines.append("]")
    lines.append("")
    lines.append("end Adaptix.Generated.Scalars")
    out = lean_dir / "AdaptixModel" / "Generated" / "Scalars.lean"
    out.parent.mkdir(parents=True, exist_ok=True)
    text = "\n".join(lines) + "\n"
    if not out.exists() or out.read_text() != text:
        out.write_text(text)
    return table
