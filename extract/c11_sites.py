"""Translator for C11: the cache sites of the working tree.

Writes lean/AdaptixModel/Generated/C11Sites.lean with
  * `sites`        every `<x>.cached_call(func, *args, **kwargs)` call under src/: file, enclosing
                   `Class.method`, the cached function expression and the key-argument expressions
                   (positional ones as written, keyword ones as `name=expr`) in call order;
  * `facadeCaches` every dict used as a cache by a facade (`self._xxx_cache[...]` reads/writes, the
                   `_call_cache` creation, the process-wide `lru_cache` of normalize_type): file, holder,
                   key expression; the attributes every `_calculate_derived` assigns (the per-retort state);
                   where a recursion resolver (the holder of the recursion stubs) is created, and the statements
                   of its `track_request` / `track_response` in order.
The Lean obligation `sites_covered` (Props/C11.lean) states that both lists equal the modelled lists
(`AdaptixModel/Retort/CacheSites.lean`): a new or changed site breaks the build instead of being ignored.
Anything this scanner does not understand (a `cached_call` whose callee or arguments cannot be rendered,
star-arguments) raises, which the check reports as a broken tie.
"""
import ast
from pathlib import Path

OUT = "AdaptixModel/Generated/C11Sites.lean"


def _q(s: str) -> str:
    return '"' + s.replace("\\", "\\\\").replace('"', '\\"').replace("\n", " ") + '"'


def _src(node: ast.AST) -> str:
    return " ".join(ast.unparse(node).split())


def _is_abstract(node: ast.FunctionDef) -> bool:
    return any(isinstance(d, ast.Name) and d.id == "abstractmethod" or isinstance(d, ast.Attribute) and d.attr == "abstractmethod"
               for d in node.decorator_list)


class _Scan(ast.NodeVisitor):
    def __init__(self, rel: str):
        self.rel = rel
        self.scope: list[str] = []
        self.sites: list[tuple[str, str, str, list[str]]] = []
        self.caches: list[tuple[str, str, str]] = []

    def _where(self) -> str:
        return ".".join(self.scope) or "<module>"

    def visit_ClassDef(self, node):
        if node.name == "FuncWrapper":
            # recursion stubs: which special methods decide their equality
            methods = sorted(n.name for n in node.body if isinstance(n, (ast.FunctionDef, ast.Assign)) and
                             (isinstance(n, ast.FunctionDef)))
            assigned = sorted(t.id for n in node.body if isinstance(n, ast.Assign) for t in n.targets
                              if isinstance(t, ast.Name) and t.id.startswith("__") and t.id != "__slots__")
            self.caches.append((self.rel, "FuncWrapper", "methods: " + ", ".join(methods + assigned)))
        self.scope.append(node.name)
        self.generic_visit(node)
        self.scope.pop()

    def visit_FunctionDef(self, node):
        self.scope.append(node.name)
        if node.name == "_calculate_derived":
            # the per-retort state: everything a retort (re)creates when it is built or cloned
            attrs = [t.attr for n in ast.walk(node) if isinstance(n, (ast.Assign, ast.AnnAssign))
                     for t in (n.targets if isinstance(n, ast.Assign) else [n.target])
                     if isinstance(t, ast.Attribute) and isinstance(t.value, ast.Name) and t.value.id == "self"]
            self.caches.append((self.rel, self._where(), "derived state: " + ", ".join(attrs)))
        if node.name in ("track_request", "track_response") and len(self.scope) >= 2 and \
                self.scope[-2].endswith("RecursionResolver") and not _is_abstract(node):
            # life cycle of the recursion stubs, statement by statement
            for st in node.body:
                self.caches.append((self.rel, self._where(), _src(st)))
        self.generic_visit(node)
        self.scope.pop()

    visit_AsyncFunctionDef = visit_FunctionDef

    def visit_Call(self, node: ast.Call):
        f = node.func
        if isinstance(f, ast.Attribute) and f.attr == "cached_call":
            if not node.args:
                raise ValueError(f"{self.rel}:{node.lineno}: cached_call without a function")
            if any(isinstance(a, ast.Starred) for a in node.args) or any(k.arg is None for k in node.keywords):
                raise ValueError(f"{self.rel}:{node.lineno}: cached_call with star-arguments is outside the subset")
            args = [_src(a) for a in node.args[1:]] + [f"{k.arg}={_src(k.value)}" for k in node.keywords]
            self.sites.append((self.rel, self._where(), _src(node.args[0]), args))
        if isinstance(f, ast.Attribute) and f.attr == "_create_recursion_resolver" or \
                isinstance(f, ast.Name) and f.id.endswith("RecursionResolver"):
            # where (how often) the holder of the recursion stubs is created
            self.caches.append((self.rel, self._where(), "creates: " + _src(node)))
        if isinstance(f, ast.Name) and f.id == "lru_cache" or isinstance(f, ast.Attribute) and f.attr == "lru_cache":
            self.caches.append((self.rel, self._where(), "lru_cache(" + ", ".join(
                [_src(a) for a in node.args] + [f"{k.arg}={_src(k.value)}" for k in node.keywords]) + ")"))
        self.generic_visit(node)

    def visit_Subscript(self, node: ast.Subscript):
        v = node.value
        if isinstance(v, ast.Attribute) and v.attr.endswith("_cache"):
            self.caches.append((self.rel, self._where(), f"{_src(v)}[{_src(node.slice)}]"))
        self.generic_visit(node)

    def visit_Assign(self, node: ast.Assign):
        self._assign(node.targets, node.value)
        self.generic_visit(node)

    def visit_AnnAssign(self, node: ast.AnnAssign):
        if node.value is not None:
            self._assign([node.target], node.value)
        self.generic_visit(node)

    def _assign(self, targets, value):
        for t in targets:
            if isinstance(t, ast.Attribute) and t.attr.endswith("_cache"):
                self.caches.append((self.rel, self._where(), f"{_src(t)} = {_src(value)}"))
            # how cached_call forms its key
            if isinstance(t, ast.Name) and self.scope and self.scope[-1] == "cached_call":
                self.caches.append((self.rel, self._where(), f"{_src(t)} = {_src(value)}"))

    def visit_Compare(self, node: ast.Compare):
        # `key in self._call_cache`
        for op, comp in zip(node.ops, node.comparators):
            if isinstance(op, (ast.In, ast.NotIn)) and isinstance(comp, ast.Attribute) and comp.attr.endswith("_cache"):
                self.caches.append((self.rel, self._where(), f"{_src(node.left)} in {_src(comp)}"))
        self.generic_visit(node)


def scan(repo: Path):
    root = repo / "src" / "adaptix"
    sites, caches = [], []
    for p in sorted(root.rglob("*.py")):
        text = p.read_text()
        if "cache" not in text and "FuncWrapper" not in text and "_calculate_derived" not in text and \
                "RecursionResolver" not in text:
            continue
        sc = _Scan(str(p.relative_to(repo / "src")))
        sc.visit(ast.parse(text))
        sites += sc.sites
        caches += sc.caches
    # the key expression of cached_call itself
    return sites, caches


def render(sites, caches) -> str:
    lines = [
        "/- GENERATED by extract/c11_sites.py from the working tree of the library; do not edit. -/",
        "namespace Adaptix.Generated.C11Sites",
        "",
        "/-- (file, `Class.method` containing the call, cached function, key arguments as written) -/",
        "def sites : List (String × String × List String) := [",
    ]
    lines += [f"  ({_q(f)}, {_q(w + ' -> ' + fn)}, [{', '.join(_q(a) for a in args)}])," for f, w, fn, args in sites]
    if sites:
        lines[-1] = lines[-1][:-1]
    lines += ["]", "", "/-- (file, holder, expression touching a cache dict / lru_cache) -/",
              "def facadeCaches : List (String × String × String) := ["]
    lines += [f"  ({_q(f)}, {_q(w)}, {_q(e)})," for f, w, e in caches]
    if caches:
        lines[-1] = lines[-1][:-1]
    lines += ["]", "", "end Adaptix.Generated.C11Sites", ""]
    return "\n".join(lines)


def extract_c11_sites(repo: Path, lean_dir: Path) -> None:
    sites, caches = scan(Path(repo))
    if not sites:
        raise ValueError("no cached_call site found: the scanner no longer understands the source")
    out = Path(lean_dir) / OUT
    out.parent.mkdir(parents=True, exist_ok=True)
    text = render(sites, caches)
    if not out.exists() or out.read_text() != text:
        out.write_text(text)


if __name__ == "__main__":
    import sys
    extract_c11_sites(Path(sys.argv[1] if len(sys.argv) > 1 else "/repo"), Path(__file__).resolve().parent.parent / "lean")
