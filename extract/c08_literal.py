"""Translator for C08: code_tools/utils.py (literal rendering of defaults) -> Lean data.

`extract_c08_literal(repo, lean_dir)` rewrites
`lean/AdaptixModel/Generated/C08Literal.lean` from the working tree on every
check:

* every module-level function reachable from `get_literal_expr` and
  `get_literal_from_factory` is translated, one Python AST node to one
  constructor of the mini-Python term language of
  `AdaptixModel/Layout/DefaultMiniPy.lean` (names are resolved statically by
  Python's scoping rules).  `Default.literalExpr` is the Lean *interpreter*
  applied to these terms, so the theorem `default_true` is re-proved against
  what the source says now;
* the module-level tables the functions read (`BUILTIN_TO_NAME`,
  `NAME_TO_BUILTIN`, `_CLS_TO_FACTORY_LITERAL`) are extracted by loading the
  file (their contents after import are what the functions see; the translator
  checks that each is bound exactly once and never mutated), and the definition
  of `_CannotBeRenderedError` is compared with its pinned AST;
* the interpreter's own `builtins` namespace is emitted as `pyBuiltins` (a
  fact about Python, used by `PyExpr.eval` for identifiers).

Anything outside the subset raises `UnsupportedConstruct`: a broken tie, never
a silent skip.
"""
from __future__ import annotations

import ast
import builtins
import importlib.util
from pathlib import Path

REL_SOURCE = "src/adaptix/_internal/code_tools/utils.py"
REL_TARGET = "AdaptixModel/Generated/C08Literal.lean"
ROOTS = ["get_literal_expr", "get_literal_from_factory"]
TABLES = ["BUILTIN_TO_NAME", "NAME_TO_BUILTIN", "_CLS_TO_FACTORY_LITERAL"]
MODULES = ["math"]
PRIM_CALLS = {"type", "repr", "len", "sorted", "map"}
KNOWN_EXCEPTIONS = {"KeyError": "Exc.keyError", "TypeError": "Exc.typeError", "IndexError": "Exc.indexError",
                    "_CannotBeRenderedError": "Exc.cannotBeRendered"}

PINNED_DEFS = {
    "_CannotBeRenderedError": (
        "ClassDef(name='_CannotBeRenderedError', bases=[Name(id='Exception', ctx=Load())], keywords=[], "
        "body=[Pass()], decorator_list=[], type_params=[])"
    ),
}


class UnsupportedConstruct(Exception):
    pass


def bad(node, why: str):
    line = getattr(node, "lineno", "?")
    raise UnsupportedConstruct(f"{REL_SOURCE}:{line}: {why}: {ast.dump(node)[:160]}")


# ----------------------------------------------------------------------------
# Lean text helpers
# ----------------------------------------------------------------------------

def lean_str(s: str) -> str:
    out = ['"']
    for c in s:
        if c == '"':
            out.append('\\"')
        elif c == "\\":
            out.append("\\\\")
        elif 32 <= ord(c) < 127:
            out.append(c)
        else:
            out.append("\\u{%x}" % ord(c))
    out.append('"')
    return "".join(out)


def lean_char(c: str) -> str:
    if c == "'":
        return "'\\''"
    if c == "\\":
        return "'\\\\'"
    if 32 <= ord(c) < 127:
        return f"'{c}'"
    return f"(Char.ofNat {ord(c)})"


def lean_chars(s: str) -> str:
    return "[" + ", ".join(lean_char(c) for c in s) + "]"


def lean_list(items) -> str:
    return "[" + ", ".join(items) + "]"


# ----------------------------------------------------------------------------
# canonical naming of builtin objects (shared with harness/props/c08.py)
# ----------------------------------------------------------------------------

def builtin_names() -> list[str]:
    return [n for n in sorted(dir(builtins)) if n.isidentifier() and not n.startswith("_")]


def canonical_builtin_name(obj) -> str | None:
    """The label of `Val.builtin` for an object of the builtins module."""
    names = [n for n in builtin_names() if getattr(builtins, n) is obj]
    if not names:
        return None
    own = getattr(obj, "__name__", None)
    if isinstance(own, str) and own in names:
        return own
    return names[0]


def lean_builtin_val(obj) -> str | None:
    if obj is None:
        return "Val.none"
    if obj is True:
        return "Val.bool true"
    if obj is False:
        return "Val.bool false"
    if obj is type(None):
        return 'Val.cls "NoneType"'
    n = canonical_builtin_name(obj)
    if n is None:
        return None
    return f"Val.builtin {lean_str(n)}"


# ----------------------------------------------------------------------------
# AST -> term
# ----------------------------------------------------------------------------

class FuncTranslator:
    def __init__(self, fn: ast.FunctionDef, module_funcs: set[str]):
        self.fn = fn
        self.module_funcs = module_funcs
        a = fn.args
        if a.posonlyargs or a.kwonlyargs or a.vararg or a.kwarg or a.defaults or a.kw_defaults:
            bad(fn, "unsupported parameter list")
        if fn.decorator_list:
            bad(fn, "decorated function")
        self.params = [x.arg for x in a.args]
        self.locals = set(self.params)
        for node in ast.walk(fn):
            if isinstance(node, ast.Name) and isinstance(node.ctx, ast.Store):
                self.locals.add(node.id)
            if isinstance(node, (ast.FunctionDef, ast.Lambda, ast.AsyncFunctionDef)) and node is not fn:
                bad(node, "nested function")
            if isinstance(node, (ast.Global, ast.Nonlocal)):
                bad(node, "global/nonlocal")
        self.called: set[str] = set()

    # -- expressions -----------------------------------------------------------
    def name(self, node: ast.Name) -> str:
        x = node.id
        if x in self.locals:
            return f"Expr.loc {lean_str(x)}"
        if x in self.module_funcs:
            self.called.add(x)
            return f"Expr.fnRef {lean_str(x)}"
        if x in TABLES or x in MODULES:
            return f"Expr.glob {lean_str(x)}"
        if x in dir(builtins):
            obj = getattr(builtins, x)
            canon = canonical_builtin_name(obj)
            if obj is None or obj is True or obj is False or canon is None:
                bad(node, "unsupported builtin name")
            return f"Expr.builtinName {lean_str(canon)}"
        bad(node, "name that is neither local, translated function, known table, nor builtin")

    def expr(self, e: ast.expr) -> str:
        if isinstance(e, ast.Name):
            if not isinstance(e.ctx, ast.Load):
                bad(e, "name in store context")
            return self.name(e)
        if isinstance(e, ast.Constant):
            if e.value is None:
                return "Expr.noneLit"
            if isinstance(e.value, str):
                return f"Expr.str {lean_chars(e.value)}"
            if type(e.value) is int:
                return f"Expr.int ({e.value})"
            bad(e, "unsupported constant")
        if isinstance(e, ast.Tuple):
            return f"Expr.tuple {lean_list(self.expr(x) for x in e.elts)}"
        if isinstance(e, ast.Call):
            if e.keywords or any(isinstance(a, ast.Starred) for a in e.args):
                bad(e, "keyword/star arguments")
            args = lean_list(self.expr(a) for a in e.args)
            if isinstance(e.func, ast.Name):
                f = e.func.id
                if f in self.locals:
                    bad(e, "call of a local")
                if f in self.module_funcs:
                    self.called.add(f)
                    return f"Expr.callFn {lean_str(f)} {args}"
                if f in PRIM_CALLS and getattr(builtins, f, None) is not None:
                    return f"Expr.callBuiltin {lean_str(f)} {args}"
                bad(e, "call of an unknown function")
            if isinstance(e.func, ast.Attribute):
                return f"Expr.callMeth ({self.expr(e.func.value)}) {lean_str(e.func.attr)} {args}"
            bad(e, "unsupported callee")
        if isinstance(e, ast.Attribute):
            return f"Expr.attr ({self.expr(e.value)}) {lean_str(e.attr)}"
        if isinstance(e, ast.Subscript):
            if isinstance(e.slice, ast.Slice):
                bad(e, "slicing")
            return f"Expr.index ({self.expr(e.value)}) ({self.expr(e.slice)})"
        if isinstance(e, ast.Compare):
            if len(e.ops) != 1:
                bad(e, "chained comparison")
            op = {ast.Is: "CmpOp.is", ast.IsNot: "CmpOp.isNot", ast.In: "CmpOp.isIn", ast.Eq: "CmpOp.eq"}.get(type(e.ops[0]))
            if op is None:
                bad(e, "unsupported comparison operator")
            return f"Expr.cmp {op} ({self.expr(e.left)}) ({self.expr(e.comparators[0])})"
        if isinstance(e, ast.BoolOp):
            if not isinstance(e.op, ast.Or):
                bad(e, "unsupported boolean operator")
            parts = [self.expr(v) for v in e.values]
            acc = parts[-1]
            for p in reversed(parts[:-1]):
                acc = f"Expr.or ({p}) ({acc})"
            return acc
        if isinstance(e, ast.BinOp):
            if not isinstance(e.op, ast.Add):
                bad(e, "unsupported binary operator")
            return f"Expr.add ({self.expr(e.left)}) ({self.expr(e.right)})"
        if isinstance(e, ast.JoinedStr):
            parts = []
            for v in e.values:
                if isinstance(v, ast.Constant) and isinstance(v.value, str):
                    parts.append(f"Expr.str {lean_chars(v.value)}")
                elif isinstance(v, ast.FormattedValue) and v.conversion == -1 and v.format_spec is None:
                    parts.append(self.expr(v.value))
                else:
                    bad(v, "f-string conversion / format spec")
            return f"Expr.fstr {lean_list(parts)}"
        if isinstance(e, ast.GeneratorExp):
            if len(e.generators) != 1:
                bad(e, "nested generator")
            g = e.generators[0]
            t = g.target
            if (g.ifs or g.is_async or not isinstance(t, ast.Tuple) or len(t.elts) != 2
                    or not all(isinstance(x, ast.Name) for x in t.elts)):
                bad(e, "unsupported generator shape")
            return (f"Expr.genPairs ({self.expr(e.elt)}) {lean_str(t.elts[0].id)} {lean_str(t.elts[1].id)} "
                    f"({self.expr(g.iter)})")
        bad(e, "unsupported expression")

    # -- statements ------------------------------------------------------------
    def exc_name(self, node) -> str:
        if isinstance(node, ast.Call) and not node.args and not node.keywords:
            node = node.func
        if not isinstance(node, ast.Name) or node.id not in KNOWN_EXCEPTIONS:
            bad(node, "exception class outside the known set")
        return KNOWN_EXCEPTIONS[node.id]

    def stmts(self, body: list[ast.stmt]) -> str:
        return lean_list(self.stmt(s) for s in body
                         if not (isinstance(s, ast.Expr) and isinstance(s.value, ast.Constant)
                                 and isinstance(s.value.value, str)))

    def stmt(self, s: ast.stmt) -> str:
        if isinstance(s, ast.Return):
            return f"Stmt.ret ({self.expr(s.value) if s.value is not None else 'Expr.noneLit'})"
        if isinstance(s, ast.Assign):
            if len(s.targets) != 1 or not isinstance(s.targets[0], ast.Name):
                bad(s, "unsupported assignment target")
            return f"Stmt.assign {lean_str(s.targets[0].id)} ({self.expr(s.value)})"
        if isinstance(s, ast.Raise):
            if s.exc is None or s.cause is not None:
                bad(s, "bare raise / raise from")
            return f"Stmt.raise {self.exc_name(s.exc)}"
        if isinstance(s, ast.If):
            return f"Stmt.ifThen ({self.expr(s.test)}) {self.stmts(s.body)} {self.stmts(s.orelse)}"
        if isinstance(s, ast.Try):
            if len(s.handlers) != 1 or s.orelse or s.finalbody:
                bad(s, "try with else/finally/several handlers")
            h = s.handlers[0]
            if h.name is not None or h.type is None:
                bad(s, "except ... as / bare except")
            types = h.type.elts if isinstance(h.type, ast.Tuple) else [h.type]
            if len(types) == 1 and isinstance(types[0], ast.Name) and types[0].id == "Exception" \
                    and getattr(builtins, "Exception") is Exception:
                # `except Exception` catches every class the interpreter knows (all derive from Exception)
                names = lean_list(KNOWN_EXCEPTIONS.values())
            else:
                names = lean_list(self.exc_name(t) for t in types)
            return f"Stmt.tryExcept {self.stmts(s.body)} {names} {self.stmts(h.body)}"
        bad(s, "unsupported statement")

    def translate(self) -> str:
        body = self.stmts(self.fn.body)
        return (f"{{ name := {lean_str(self.fn.name)}, params := {lean_list(lean_str(p) for p in self.params)},\n"
                f"    body := {body} }}")


def load_module(path: Path):
    spec = importlib.util.spec_from_file_location("_c08_utils_under_test", path)
    mod = importlib.util.module_from_spec(spec)
    spec.loader.exec_module(mod)
    return mod


def generate(repo: Path) -> str:
    src_path = Path(repo) / REL_SOURCE
    tree = ast.parse(src_path.read_text())
    funcs = {n.name: n for n in tree.body if isinstance(n, ast.FunctionDef)}
    for r in ROOTS:
        if r not in funcs:
            raise UnsupportedConstruct(f"{REL_SOURCE}: function {r} not found")

    # pinned module-level definitions the interpreter treats as primitives
    seen_defs = {}
    for n in tree.body:
        if isinstance(n, ast.Assign) and len(n.targets) == 1 and isinstance(n.targets[0], ast.Name):
            seen_defs.setdefault(n.targets[0].id, []).append(n)
        elif isinstance(n, ast.AnnAssign) and isinstance(n.target, ast.Name):
            seen_defs.setdefault(n.target.id, []).append(n)
        elif isinstance(n, ast.ClassDef):
            seen_defs.setdefault(n.name, []).append(n)
        elif isinstance(n, ast.AugAssign):
            bad(n, "augmented assignment at module level")
    for name, pinned in PINNED_DEFS.items():
        nodes = seen_defs.get(name, [])
        if len(nodes) != 1:
            raise UnsupportedConstruct(f"{REL_SOURCE}: expected exactly one definition of {name}, found {len(nodes)}")
        if ast.dump(nodes[0]) != pinned:
            bad(nodes[0], f"definition of {name} differs from the pinned form the model treats as primitive")
    for name in TABLES:
        if len(seen_defs.get(name, [])) != 1:
            raise UnsupportedConstruct(f"{REL_SOURCE}: {name} must be bound exactly once at module level")
    # nothing else may rebind or mutate the tables
    for n in ast.walk(tree):
        if isinstance(n, (ast.Subscript, ast.Attribute)) and isinstance(n.ctx, (ast.Store, ast.Del)):
            base = n.value
            if isinstance(base, ast.Name) and base.id in TABLES:
                bad(n, "table mutated after its definition")
        if isinstance(n, ast.Call) and isinstance(n.func, ast.Attribute) and isinstance(n.func.value, ast.Name) \
                and n.func.value.id in TABLES and n.func.attr not in ("get", "items"):
            bad(n, "unsupported method on a table")

    # reachable functions, in source order
    done: dict[str, str] = {}
    todo = list(ROOTS)
    while todo:
        f = todo.pop()
        if f in done:
            continue
        tr = FuncTranslator(funcs[f], set(funcs))
        done[f] = tr.translate()
        todo.extend(sorted(tr.called - set(done)))
    ordered = [n for n in funcs if n in done]

    mod = load_module(src_path)
    out = []
    out.append("/- GENERATED by extract/c08_literal.py from " + REL_SOURCE + " — do not edit; rewritten on every check. -/")
    out.append("import AdaptixModel.Layout.DefaultMiniPy")
    out.append("")
    out.append("namespace Adaptix.Default.Generated")
    out.append("open Adaptix.Default")
    out.append("")
    for n in ordered:
        out.append(f"def fn_{n.lstrip('_')} : FuncDef :=\n  {done[n]}")
        out.append("")
    out.append("def funcs : List FuncDef := " + lean_list(f"fn_{n.lstrip('_')}" for n in ordered))
    out.append("")

    def table(name, rows):
        out.append(f"def {name} :=\n  [" + ",\n   ".join(rows) + "]")
        out.append("")

    rows = []
    for n in builtin_names():
        v = lean_builtin_val(getattr(builtins, n))
        rows.append(f"({lean_chars(n)}, {v})")
    out.append("/-- the interpreter's `builtins` namespace (a fact about Python, not about adaptix) -/")
    out.append("def pyBuiltins : Builtins :=\n  [" + ",\n   ".join(rows) + "]")
    out.append("")

    rows = []
    for obj, name in mod.BUILTIN_TO_NAME.items():
        v = lean_builtin_val(obj)
        if v is None or not isinstance(name, str):
            raise UnsupportedConstruct(f"BUILTIN_TO_NAME holds an entry outside the model: {obj!r}: {name!r}")
        rows.append(f"({v}, {lean_chars(name)})")
    out.append("def builtinToName : List (Val × List Char) :=\n  [" + ",\n   ".join(rows) + "]")
    out.append("")

    rows = []
    for name, obj in sorted(mod.NAME_TO_BUILTIN.items(), key=lambda kv: str(kv[0])):
        v = lean_builtin_val(obj)
        if v is None or not isinstance(name, str):
            raise UnsupportedConstruct(f"NAME_TO_BUILTIN holds an entry outside the model: {name!r}: {obj!r}")
        rows.append(f"({lean_chars(name)}, {v})")
    out.append("def nameToBuiltin : List (List Char × Val) :=\n  [" + ",\n   ".join(rows) + "]")
    out.append("")

    rows = []
    for obj, text in mod._CLS_TO_FACTORY_LITERAL.items():
        v = lean_builtin_val(obj)
        if v is None or not isinstance(text, str):
            raise UnsupportedConstruct(f"_CLS_TO_FACTORY_LITERAL holds an entry outside the model: {obj!r}: {text!r}")
        rows.append(f"({v}, {lean_chars(text)})")
    out.append("def clsToFactoryLiteral : List (Val × List Char) :=\n  [" + ",\n   ".join(rows) + "]")
    out.append("")
    out.append("end Adaptix.Default.Generated")
    return "\n".join(out) + "\n"


def extract_c08_literal(repo, lean_dir) -> None:
    text = generate(Path(repo))
    target = Path(lean_dir) / REL_TARGET
    target.parent.mkdir(parents=True, exist_ok=True)
    if not target.exists() or target.read_text() != text:
        target.write_text(text)


if __name__ == "__main__":
    import sys
    print(generate(Path(sys.argv[1] if len(sys.argv) > 1 else "/repo")))
