"""Translator for C14: regenerates lean/AdaptixModel/Generated/C14Recipe.lean from the working tree.

What is read from the tree under test (import-time introspection + AST):
  * the ORDER of the providers of `FilledConversionRetort.recipe` that answer `CoercerRequest`
    (class names) -- a re-ordering, removal or addition changes the model's recipe;
  * `IterableCoercerProvider.CONCRETE_ORIGINS` and `ABC_TO_IMPL` (origin -> factory);
  * the origin tuples of `DictCoercerProvider._parse_source/_parse_destination` (AST);
  * the verdict of the unlinked-optional policy that closes the builtin recipe.
Anything it does not understand raises (a broken tie, never a silent skip).
"""
import ast
import inspect
import textwrap
from pathlib import Path

KNOWN_PROVIDERS = [
    "ModelCoercerProvider", "IterableCoercerProvider", "DictCoercerProvider", "OptionalCoercerProvider",
    "TypeHintTagsUnwrappingProvider", "SameTypeCoercerProvider", "DstAnyCoercerProvider",
    "UnionSubcaseCoercerProvider", "SubclassCoercerProvider",
]
KNOWN_ITER = {"list", "set", "tuple", "deque", "frozenset", "Iterable", "Reversible", "Collection", "Sequence",
              "MutableSequence", "Set", "MutableSet"}
KNOWN_CONC = {"list", "tuple", "set", "frozenset", "deque"}
KNOWN_MAP = {"dict", "Mapping", "MutableMapping", "defaultdict", "OrderedDict"}


class TranslatorError(Exception):
    pass


def _lean_str_list(xs):
    return "[" + ", ".join('"%s"' % x for x in xs) + "]"


def _dict_origins(func) -> list:
    """names inside the `norm.origin in (...)` tuple of a `_parse_*` method"""
    tree = ast.parse(textwrap.dedent(inspect.getsource(func)))
    found = []
    for node in ast.walk(tree):
        if isinstance(node, ast.Compare) and len(node.ops) == 1 and isinstance(node.ops[0], ast.In):
            left = node.left
            if isinstance(left, ast.Attribute) and left.attr == "origin" and isinstance(node.comparators[0], (ast.Tuple, ast.List, ast.Set)):
                names = []
                for elt in node.comparators[0].elts:
                    if isinstance(elt, ast.Name):
                        names.append(elt.id)
                    elif isinstance(elt, ast.Attribute):
                        names.append(elt.attr)
                    else:
                        raise TranslatorError(f"{func.__qualname__}: origin tuple element {ast.dump(elt)} not understood")
                found.append(names)
    if len(found) != 1:
        raise TranslatorError(f"{func.__qualname__}: expected exactly one `norm.origin in (...)` test, found {len(found)}")
    return found[0]


def collect(repo: Path) -> dict:
    from adaptix._internal.conversion import coercer_provider as cp
    from adaptix._internal.conversion.facade.retort import ConversionRetort
    from adaptix._internal.conversion.request_cls import CoercerRequest, UnlinkedOptionalPolicyRequest

    src_file = Path(inspect.getsourcefile(cp)).resolve()
    if Path(repo).resolve() not in src_file.parents:
        raise TranslatorError(f"adaptix is imported from {src_file}, not from the tree under test {repo}")

    providers, policies = [], []
    # the effective recipe `get_converter` searches: FilledConversionRetort.recipe plus head/tail
    for prov in ConversionRetort()._get_full_recipe():
        handlers = prov.get_request_handlers()
        classes = {rc for rc, _checker, _handler in handlers}
        if any(issubclass(rc, CoercerRequest) for rc in classes):
            name = type(prov).__name__
            if name not in KNOWN_PROVIDERS:
                raise TranslatorError(f"coercer provider {name} of the builtin recipe is not modelled")
            providers.append(name)
        for rc, _checker, handler in handlers:
            if issubclass(rc, UnlinkedOptionalPolicyRequest):
                policies.append(bool(handler(None, None).is_allowed))
    if not providers:
        raise TranslatorError("no coercer provider found in FilledConversionRetort.recipe")
    if len(policies) != 1:
        raise TranslatorError(f"expected one unlinked-optional policy closing the builtin recipe, found {len(policies)}")

    it = cp.IterableCoercerProvider
    concrete = sorted(o.__name__ for o in it.CONCRETE_ORIGINS)
    abc_to_impl = [(k.__name__, v.__name__) for k, v in it.ABC_TO_IMPL.items()]
    for n in concrete + [k for k, _ in abc_to_impl]:
        if n not in KNOWN_ITER:
            raise TranslatorError(f"iterable origin {n} is outside the model's grammar")
    for n in concrete + [v for _, v in abc_to_impl]:
        if n not in KNOWN_CONC:
            raise TranslatorError(f"factory {n} is not a modelled container")
    dsrc = _dict_origins(cp.DictCoercerProvider._parse_source)
    ddst = _dict_origins(cp.DictCoercerProvider._parse_destination)
    for n in dsrc + ddst:
        if n not in KNOWN_MAP:
            raise TranslatorError(f"mapping origin {n} is outside the model's grammar")
    return {"providers": providers, "concrete": concrete, "abc_to_impl": abc_to_impl,
            "dict_src": dsrc, "dict_dst": ddst, "policy_allowed": policies[0]}


def render(d: dict) -> str:
    pairs = "[" + ", ".join('("%s", "%s")' % p for p in d["abc_to_impl"]) + "]"
    return f'''/-
  GENERATED by extract/c14_recipe.py from the working tree under test -- do not edit.
  Source: src/adaptix/_internal/conversion/facade/retort.py (FilledConversionRetort.recipe),
          src/adaptix/_internal/conversion/coercer_provider.py (IterableCoercerProvider tables,
          DictCoercerProvider origins).
-/
namespace Adaptix.Conv.Generated

/-- coercer providers of `FilledConversionRetort.recipe`, in recipe order -/
def coercerProviders : List String :=
  {_lean_str_list(d["providers"])}

/-- `IterableCoercerProvider.CONCRETE_ORIGINS` (sorted by name) -/
def concreteOrigins : List String :=
  {_lean_str_list(d["concrete"])}

/-- `IterableCoercerProvider.ABC_TO_IMPL` as (abstract origin, factory) in source order -/
def abcToImpl : List (String × String) :=
  {pairs}

/-- origins accepted by `DictCoercerProvider._parse_source` / `_parse_destination` -/
def dictSrcOrigins : List String := {_lean_str_list(d["dict_src"])}
def dictDstOrigins : List String := {_lean_str_list(d["dict_dst"])}

/-- the unlinked-optional policy at the end of the builtin recipe allows skipping? -/
def builtinUnlinkedOptionalAllowed : Bool := {"true" if d["policy_allowed"] else "false"}

end Adaptix.Conv.Generated
'''


def regenerate(repo, lean_dir) -> dict:
    d = collect(Path(repo))
    out = Path(lean_dir) / "AdaptixModel" / "Generated" / "C14Recipe.lean"
    text = render(d)
    if not out.exists() or out.read_text() != text:   # keep the mtime when nothing changed (no rebuild)
        out.write_text(text)
    return d


def c14_recipe(repo, lean_dir):
    regenerate(repo, lean_dir)


if __name__ == "__main__":
    import os
    import sys
    repo = Path(os.environ.get("VERIF_REPO", "/repo"))
    sys.path.insert(0, str(repo / "src"))
    print(regenerate(repo, Path(__file__).resolve().parent.parent / "lean"))
