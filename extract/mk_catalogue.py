"""Builds extract/catalogue.json empirically: which outcome classes each call site of each translated
scalar closure shows on each datum tag over the hostile corpus.  Run by hand when the closures change
(`/venv/bin/python -m extract.mk_catalogue`); the result is REVIEWED and committed -- it is the assumed
stdlib exception catalogue of the trusted base.  Every check run validates observed ⊆ catalogue."""
import json
import sys
from collections import defaultdict

sys.path.insert(0, "/repo/src")
from extract import hostile, scalars  # noqa: E402


def observe(table=None):
    table = table or scalars.closure_table()
    cat = defaultdict(lambda: defaultdict(lambda: defaultdict(set)))
    for (name, strict), tc in table.items():
        ident = f"{name}_{'strict' if strict else 'lax'}"
        for mk in hostile.corpus():
            d = mk()
            tag = scalars.tag_of(d)
            log, _final = scalars.site_outcomes(tc, d)
            for site, (kind, payload) in log.items():
                cat[ident][site][tag].add(kind if kind != "raises" else f"raises:{payload}")
    return cat


if __name__ == "__main__":
    cat = observe()
    out = {i: {s: {t: sorted(v) for t, v in sorted(tags.items())} for s, tags in sites.items()} for i, sites in sorted(cat.items())}
    scalars.CATALOGUE_FILE.write_text(json.dumps(out, indent=1, sort_keys=True))
    n = sum(len(v) for sites in out.values() for tags in sites.values() for v in tags.values())
    print("catalogue entries:", n)
