"""Translator for C19: interpolation sites and name tables of the code generators.

Walks the AST of the generator modules of the working tree under test and writes
`lean/AdaptixModel/Generated/C19Sites.lean`:

  * `sites`        every f-string / Template / str.format / `+` / join interpolation site that
                   feeds generated source text, with its conversion (`!r` or not) and a
                   classification of the interpolated expression obtained by a small
                   data-flow analysis (assignments, parameters -> call sites, method returns,
                   attribute stores).  Whatever the analysis cannot prove to be one of the safe
                   classes is emitted as `SiteClass.raw`, which makes the `decide` obligation
                   `sites_classified` fail: a new raw site is a broken obligation, never skipped.
  * `loaderSpec` / `dumperSpec`   generated-name families, fixed identifiers and heads of
                   path-suffixed variables as they occur in the templates.
  * `builtinNames` keys of `code_tools.utils.NAME_TO_BUILTIN` of the tree under test.
  * `fieldIdValidated`  `BaseField.__post_init__` still refuses ids that are not identifiers.
  * `nextIdPrefixes` / `nextIdThroughMangling`  the prefixes of the numbered helper names of the converter generator
                   (`register_next_id("constant" | "func" | "accessor", ...)`) and the fact that the numbered name is
                   handed to `register_mangled` (it is a basis, not a reserved name).

Nothing here is specific to one version of the templates: the lists are whatever the source says now.
"""
from __future__ import annotations

import ast
import importlib
import re
import sys
from pathlib import Path

INTERNAL = "src/adaptix/_internal/"
GEN_FILES = [
    INTERNAL + "morphing/model/loader_gen.py",
    INTERNAL + "morphing/model/dumper_gen.py",
    INTERNAL + "morphing/model/basic_gen.py",
    INTERNAL + "conversion/broaching/code_generator.py",
    INTERNAL + "conversion/converter_provider.py",
    INTERNAL + "code_tools/utils.py",
]
AUX_FILES = [
    INTERNAL + "morphing/model/loader_provider.py",
    INTERNAL + "morphing/model/dumper_provider.py",
    INTERNAL + "conversion/model_coercer_provider.py",
]

SAFE = {
    "fixed", "reprQuoted", "reprContainer", "literalExpr", "genName", "familyDef", "fieldId", "guardedIdent",
    "kwargName", "paramName", "sanitised", "intIndex", "astNode", "fragment",
}
RAW = "raw"

MESSAGE_CALLS = {"CannotProvide", "AggregateCannotProvide", "ValueError", "TypeError", "KeyError", "RuntimeError",
                 "IntrospectionError", "mandatory_provide"}


def join(classes):
    classes = [c for c in classes if c is not None]
    if not classes:
        return "fixed"
    if any(c == RAW for c in classes):
        return RAW
    if len(set(classes)) == 1:
        return classes[0]
    if set(classes) <= {"fixed", "intIndex"}:
        return "fixed"
    return "fragment"


class Module:
    def __init__(self, repo: Path, rel: str):
        self.rel = rel
        self.short = rel[len(INTERNAL):]
        self.src = (repo / rel).read_text()
        self.tree = ast.parse(self.src)
        for node in ast.walk(self.tree):
            for ch in ast.iter_child_nodes(node):
                ch._parent = node  # type: ignore[attr-defined]
                ch._module = self  # type: ignore[attr-defined]
        self.tree._parent = None  # type: ignore[attr-defined]

    def text(self, node) -> str:
        return ast.get_source_segment(self.src, node) or ast.unparse(node)


def parent(n):
    return getattr(n, "_parent", None)


def enclosing(n, kinds):
    n = parent(n)
    while n is not None and not isinstance(n, kinds):
        n = parent(n)
    return n


def enclosing_func(n):
    return enclosing(n, (ast.FunctionDef, ast.AsyncFunctionDef, ast.Lambda))


def enclosing_class(n):
    return enclosing(n, (ast.ClassDef,))


def func_name(n) -> str:
    parts = []
    while n is not None:
        if isinstance(n, (ast.FunctionDef, ast.ClassDef)):
            parts.append(n.name)
        elif isinstance(n, ast.Lambda):
            parts.append("<lambda>")
        n = parent(n)
    return ".".join(reversed(parts)) or "<module>"


class Analysis:
    def __init__(self, repo: Path):
        self.repo = repo
        self.modules = [Module(repo, f) for f in GEN_FILES + AUX_FILES]
        self.gen_modules = self.modules[:len(GEN_FILES)]
        self.funcs: dict[str, list] = {}
        self.calls: dict[str, list] = {}
        self.attr_stores: dict[str, list] = {}     # attr name -> [value expr]
        self.attr_item_stores: dict[str, list] = {}  # attr name -> [(key expr, value expr)]
        self.ctor_calls: dict[str, list] = {}
        for m in self.modules:
            for n in ast.walk(m.tree):
                if isinstance(n, (ast.FunctionDef, ast.AsyncFunctionDef)):
                    self.funcs.setdefault(n.name, []).append(n)
                elif isinstance(n, ast.Call):
                    name = self.callee_name(n)
                    if name:
                        self.calls.setdefault(name, []).append(n)
                    if name == "cached_call" and n.args and isinstance(n.args[0], (ast.Attribute, ast.Name)):
                        # mediator.cached_call(self._make_loader, k=v, ...) calls self._make_loader(k=v, ...)
                        syn = ast.Call(func=n.args[0], args=list(n.args[1:]), keywords=list(n.keywords))
                        ast.copy_location(syn, n)
                        syn._parent = parent(n)  # type: ignore[attr-defined]
                        syn._module = m  # type: ignore[attr-defined]
                        self.calls.setdefault(self.callee_name(syn), []).append(syn)
                elif isinstance(n, (ast.Assign, ast.AnnAssign, ast.AugAssign)):
                    targets = n.targets if isinstance(n, ast.Assign) else [n.target]
                    value = n.value
                    for t in targets:
                        if isinstance(t, ast.Attribute) and value is not None:
                            self.attr_stores.setdefault(t.attr, []).append(value)
                        if isinstance(t, ast.Subscript) and isinstance(t.value, ast.Attribute) and value is not None:
                            self.attr_item_stores.setdefault(t.value.attr, []).append((t.slice, value))
        self.memo: dict[int, str] = {}
        self.active: set[int] = set()
        self.why: dict[int, str] = {}

    @staticmethod
    def callee_name(call: ast.Call):
        f = call.func
        if isinstance(f, ast.Name):
            return f.id
        if isinstance(f, ast.Attribute):
            return f.attr
        return None

    # ------------------------------------------------------------------ classification
    def classify(self, e, conv: str = "") -> str:
        key = (id(e), conv)
        if key in self.memo:
            return self.memo[key]
        if key in self.active:
            return "fixed"  # back-edge of a recursive generator: neutral element of `join`
        self.active.add(key)
        try:
            r = self._classify(e, conv)
        finally:
            self.active.discard(key)
        self.memo[key] = r
        return r

    def _classify(self, e, conv) -> str:
        m: Module = e._module
        if conv == "r":
            # repr of a plain access path / local / subscript: rendered by unicode_repr (str), int.__repr__
            # or the repr of a tuple/list of those
            if isinstance(e, (ast.Name, ast.Attribute, ast.Subscript, ast.Constant)):
                return "reprQuoted"
            return RAW
        if conv not in ("", "s"):
            return RAW
        if isinstance(e, ast.Constant):
            if isinstance(e.value, str):
                return "fixed"
            if isinstance(e.value, (int,)) or e.value is None:
                return "intIndex"
            return RAW
        if isinstance(e, ast.JoinedStr):
            return self.classify_joined(e)
        if isinstance(e, ast.FormattedValue):
            c = {-1: "", 114: "r", 115: "s", 97: "a"}[e.conversion]
            if e.format_spec is not None:
                return RAW
            return self.classify(e.value, c)
        if isinstance(e, ast.IfExp):
            return join([self.classify(e.body), self.classify(e.orelse)])
        if isinstance(e, ast.BoolOp):
            return join([self.classify(v) for v in e.values])
        if isinstance(e, ast.BinOp) and isinstance(e.op, ast.Add):
            return self.classify_concat(e)
        if isinstance(e, ast.Call):
            return self.classify_call(e)
        if isinstance(e, ast.Name):
            return self.classify_name(e)
        if isinstance(e, ast.Attribute):
            return self.classify_attribute(e)
        if isinstance(e, ast.Subscript):
            return self.classify_subscript(e)
        return RAW

    def classify_joined(self, e: ast.JoinedStr) -> str:
        fam = self.family_def(e)
        if fam is not None:
            return "familyDef"
        out = []
        for v in e.values:
            if isinstance(v, ast.Constant):
                continue
            out.append(self.classify(v))
        return join(out + ["fragment"]) if out else "fixed"

    def family_def(self, e: ast.JoinedStr):
        """`f"prefix_{field.id}"` / `f"prefix_{field_id}"` (optionally followed by "()")."""
        vals = e.values
        if len(vals) in (2, 3) and isinstance(vals[0], ast.Constant) and isinstance(vals[1], ast.FormattedValue) \
                and vals[1].conversion == -1 and re.fullmatch(r"[A-Za-z_][A-Za-z0-9_]*_", str(vals[0].value)) \
                and self.is_field_id(vals[1].value):
            if len(vals) == 3 and not (isinstance(vals[2], ast.Constant) and vals[2].value == "()"):
                return None
            return vals[0].value
        return None

    def is_field_id(self, e) -> bool:
        """Is the expression a field id (BaseField.id, validated by `str.isidentifier`)?"""
        key = ("fid", id(e))
        if key in self.active:
            return True
        self.active.add(key)
        try:
            return self._is_field_id(e)
        finally:
            self.active.discard(key)

    def _is_field_id(self, e) -> bool:
        if isinstance(e, ast.Attribute) and e.attr == "id" and isinstance(e.value, ast.Name) \
                and e.value.id in ("field", "crown", "sub_crown", "fld"):
            return True
        if isinstance(e, ast.Name):
            srcs = self.name_sources(e)
            if not srcs:
                return False
            for s in srcs:
                if s[0] == "expr":
                    if not self.is_field_id(s[1]):
                        return False
                elif s[0] == "iter":
                    t = s[1]._module.text(s[1])
                    if not re.search(r"(extra_move\.fields|_extra_targets|_field_loaders\.items\(\)|_fields_dumpers\.items\(\))", t):
                        return False
                    if s[2] not in (None, 0):
                        return False
                elif s[0] == "param":
                    fn, argname = s[1], s[2]
                    vals = self.call_args(fn, argname)
                    if not vals or not all(v is not None and self.is_field_id(v) for v in vals):
                        return False
                else:
                    return False
            return True
        return False

    def call_args(self, fn, argname):
        """argument expressions passed for `argname` at every call site of fn (None where it cannot be told)"""
        if isinstance(fn, ast.Lambda):
            return []
        args = fn.args
        pos = [a.arg for a in args.posonlyargs + args.args]
        is_method = bool(pos) and pos[0] in ("self", "cls") and isinstance(parent(fn), ast.ClassDef)
        allnames = {a.arg for a in args.posonlyargs + args.args + args.kwonlyargs}
        n_pos_defaults = len(args.defaults)
        required = [a.arg for a in (args.posonlyargs + args.args)[:len(pos) - n_pos_defaults]
                    if a.arg not in ("self", "cls")]
        required += [a.arg for a, d in zip(args.kwonlyargs, args.kw_defaults) if d is None]
        out = []
        for c in self.calls.get(fn.name, []):
            kwnames = {k.arg for k in c.keywords if k.arg is not None}
            has_unpack = any(k.arg is None for k in c.keywords) or any(isinstance(a, ast.Starred) for a in c.args)
            if not kwnames <= allnames and args.kwarg is None:
                continue  # a call of another function with the same name
            n_pos_given = len(c.args)
            shift = 1 if is_method and isinstance(c.func, ast.Attribute) else 0
            given = set(kwnames) | set(pos[shift:shift + n_pos_given])
            if not has_unpack and not set(required) <= given:
                continue
            val = None
            for k in c.keywords:
                if k.arg == argname:
                    val = k.value
            if val is None and argname in pos:
                i = pos.index(argname) - (1 if is_method and isinstance(c.func, ast.Attribute) else 0)
                if 0 <= i < len(c.args) and not any(isinstance(a, ast.Starred) for a in c.args[:i + 1]):
                    val = c.args[i]
            if val is None:
                val = self.param_default(fn, argname)
            out.append(val)
        return out

    def classify_concat(self, e: ast.BinOp) -> str:
        parts = []

        def flat(x):
            if isinstance(x, ast.BinOp) and isinstance(x.op, ast.Add):
                flat(x.left)
                flat(x.right)
            else:
                parts.append(x)
        flat(e)
        return join([self.classify(p) for p in parts] + ["fragment"])

    def classify_call(self, e: ast.Call) -> str:
        name = self.callee_name(e)
        m: Module = e._module
        if name is None:
            return RAW
        if name.startswith("v_") or name.startswith("_v_"):
            return "genName"
        if name in ("get_literal_expr", "get_literal_from_factory", "_provide_lit_expr", "_get_complex_literal_expr",
                    "_parenthesize"):
            return "literalExpr"
        if name == "repr" and isinstance(e.func, ast.Name):
            return "reprQuoted"
        if name == "len" and isinstance(e.func, ast.Name):
            return "intIndex"
        if name == "str" and isinstance(e.func, ast.Name) and len(e.args) == 1:
            inner = self.classify(e.args[0])
            return "intIndex" if inner == "intIndex" else RAW
        if name == "list" and isinstance(e.func, ast.Name):
            return "reprContainer"
        if name == "unparse":
            return "astNode"
        if name == "sanitize":
            return "sanitised"
        if name == "join" and isinstance(e.func, ast.Attribute) and isinstance(e.func.value, ast.Constant):
            arg = e.args[0]
            if isinstance(arg, (ast.GeneratorExp, ast.ListComp)):
                return join([self.classify(arg.elt), "fragment"])
            if isinstance(arg, ast.Call) and self.callee_name(arg) == "filter":
                return self.classify(arg.args[1])
            if isinstance(arg, ast.Call) and self.callee_name(arg) == "map" and len(arg.args) == 2 \
                    and isinstance(arg.args[0], ast.Name):
                return self.classify_returns(arg.args[0].id)
            return self.classify(arg)
        if name == "substitute" and isinstance(e.func, ast.Attribute) and isinstance(e.func.value, ast.Call) \
                and self.callee_name(e.func.value) == "Template":
            tmpl = e.func.value.args[0]
            return join([self.classify(tmpl)] + [self.classify(k.value) for k in e.keywords] + ["fragment"])
        if name == "replace" and "signature" in m.text(e.func):
            return self.classify_signature(e)
        if name in ("Signature",):
            return self.classify_signature_ctor(e)
        if name == "_merge_view_string":
            return join([self.classify(a) for a in e.args])
        if name == "normalize" and len(e.args) == 2:
            return self.classify(e.args[1])
        if name in self.funcs:
            return self.classify_returns(name, e._module)
        return RAW

    def classify_returns(self, fname: str, prefer_module=None) -> str:
        out = []
        cands = self.funcs.get(fname, [])
        same = [f for f in cands if f._module is prefer_module]
        for fn in (same or cands):
            for n in ast.walk(fn):
                if isinstance(n, ast.Return) and n.value is not None and enclosing_func(n) is fn:
                    out.append(self.classify(n.value))
        return join(out) if out else RAW

    def classify_signature(self, e: ast.Call) -> str:
        """`signature.replace(parameters=[param.replace(annotation=empty[, default=empty]) ...])` rendered by
        `Signature.__str__`: parameter names (validated by inspect.Parameter) and, unless removed, repr() of defaults."""
        txt = e._module.text(e)
        base = e.func.value  # type: ignore[attr-defined]
        src = self.classify(base)
        if src == "fixed":
            return "fixed"
        if "default=Signature.empty" in txt.replace(" ", ""):
            return "paramName"
        # defaults replaced by objects whose repr is the name of a registered constant
        dflts = [k.value for n in ast.walk(e) if isinstance(n, ast.Call) and self.callee_name(n) == "replace"
                 for k in n.keywords if k.arg == "default"]
        if dflts and all(self.default_is_name_ref(d) for d in dflts):
            return "paramName"
        return RAW

    def default_is_name_ref(self, d) -> bool:
        if isinstance(d, ast.IfExp):
            return self.default_is_name_ref(d.body) and self.default_is_name_ref(d.orelse)
        if isinstance(d, ast.Attribute) and ast.unparse(d) == "Signature.empty":
            return True
        if isinstance(d, ast.Call) and isinstance(d.func, ast.Name) and len(d.args) == 1 and not d.keywords:
            cls = [n for m in self.modules for n in ast.walk(m.tree) if isinstance(n, ast.ClassDef) and n.name == d.func.id]
            if len(cls) != 1:
                return False
            init = next((f for f in cls[0].body if isinstance(f, ast.FunctionDef) and f.name == "__init__"), None)
            rep = next((f for f in cls[0].body if isinstance(f, ast.FunctionDef) and f.name == "__repr__"), None)
            if init is None or rep is None or len(init.args.args) != 2:
                return False
            arg = init.args.args[1].arg
            stores = [n for n in ast.walk(init) if isinstance(n, ast.Assign) and isinstance(n.value, ast.Name) and n.value.id == arg
                      and isinstance(n.targets[0], ast.Attribute)]
            rets = [n for n in ast.walk(rep) if isinstance(n, ast.Return)]
            if len(stores) != 1 or len(rets) != 1 or ast.unparse(rets[0].value) != ast.unparse(stores[0].targets[0]):
                return False
            return self.classify(d.args[0]) in SAFE   # the name itself comes from the mangling registry
        return False

    def classify_signature_ctor(self, e: ast.Call) -> str:
        """`Signature(parameters=[Parameter("data", ...), ...])` with constant names and no defaults"""
        for n in ast.walk(e):
            if isinstance(n, ast.Call) and self.callee_name(n) == "Parameter":
                if not (n.args and isinstance(n.args[0], ast.Constant)):
                    return RAW
                if any(k.arg == "default" for k in n.keywords):
                    return RAW
        return "fixed"

    # ---- names -------------------------------------------------------------------------
    def name_sources(self, e: ast.Name):
        """Where the value of a local name comes from: list of ("expr", node) | ("iter", iterable, index) |
        ("param", funcdef, argname); None if unknown."""
        fn = enclosing_func(e)
        out = []
        scope = fn
        while scope is not None:
            found = False
            body_nodes = list(ast.walk(scope))
            for n in body_nodes:
                if enclosing_func(n) is not scope and n is not scope:
                    continue
                if isinstance(n, ast.Assign):
                    for t in n.targets:
                        if isinstance(t, ast.Name) and t.id == e.id:
                            out.append(("expr", n.value))
                            found = True
                        elif isinstance(t, ast.Tuple):
                            for i, el in enumerate(t.elts):
                                if isinstance(el, ast.Name) and el.id == e.id:
                                    if isinstance(n.value, ast.Tuple) and len(n.value.elts) == len(t.elts):
                                        out.append(("expr", n.value.elts[i]))
                                    elif isinstance(el, ast.Name):
                                        out.append(("unpack", n.value))
                                    found = True
                                if isinstance(el, ast.Starred) and isinstance(el.value, ast.Name) and el.value.id == e.id:
                                    out.append(("unpack", n.value))
                                    found = True
                elif isinstance(n, ast.AnnAssign) and isinstance(n.target, ast.Name) and n.target.id == e.id \
                        and n.value is not None:
                    out.append(("expr", n.value))
                    found = True
                elif isinstance(n, ast.AugAssign) and isinstance(n.target, ast.Name) and n.target.id == e.id:
                    out.append(("expr", n.value))
                    found = True
                elif isinstance(n, (ast.For, ast.comprehension)):
                    tgt = n.target
                    names = [tgt] if isinstance(tgt, ast.Name) else list(getattr(tgt, "elts", []))
                    for i, el in enumerate(names):
                        if isinstance(el, ast.Name) and el.id == e.id:
                            out.append(("iter", n.iter, i if not isinstance(tgt, ast.Name) else None))
                            found = True
            if isinstance(scope, (ast.FunctionDef, ast.Lambda)):
                args = scope.args
                allargs = args.posonlyargs + args.args + args.kwonlyargs
                for a in allargs:
                    if a.arg == e.id and not found:
                        out.append(("param", scope, a.arg))
                        found = True
            if found:
                return out
            scope = enclosing_func(scope)
        return None

    def classify_name(self, e: ast.Name) -> str:
        if e.id in ("True", "False", "None"):
            return "fixed"
        srcs = self.name_sources(e)
        if not srcs:
            return RAW
        out = []
        for s in srcs:
            if s[0] == "expr":
                out.append(self.classify(s[1]))
            elif s[0] == "iter":
                out.append(self.classify_iter(s[1], s[2], e))
            elif s[0] == "param":
                out.append(self.classify_param(s[1], s[2]))
            else:
                out.append(RAW)
        return join(out)

    def classify_iter(self, it, idx, e) -> str:
        m: Module = it._module
        t = m.text(it)
        if isinstance(it, ast.Call) and self.callee_name(it) == "enumerate" and idx == 0:
            return "intIndex"
        if isinstance(it, ast.Call) and self.callee_name(it) in ("count", "range") and idx is None:
            return "intIndex"
        if isinstance(it, ast.Tuple) and idx is None:
            out = []
            for el in it.elts:
                if isinstance(el, ast.Starred) and isinstance(el.value, ast.Name) and el.value.id == "namespace":
                    out.append(self.classify_namespace_names())
                elif isinstance(el, ast.Starred):
                    out.append(RAW)
                else:
                    out.append(self.classify(el))
            return join(out)
        if isinstance(it, ast.Call) and self.callee_name(it) == "items" and isinstance(it.func, ast.Attribute) \
                and isinstance(it.func.value, ast.Name) and it.func.value.id == "namespace" and idx == 0:
            # keys of the mapping produced by CascadeNamespace.all_constants: every registered name
            return self.classify_namespace_names()
        if isinstance(it, ast.Call) and self.callee_name(it) == "items" and isinstance(it.func, ast.Attribute) \
                and isinstance(it.func.value, ast.Attribute):
            attr = it.func.value.attr
            stores = self.attr_item_stores.get(attr, [])
            if stores:
                if idx == 1:
                    return join([self.classify(v) for _, v in stores])
                if idx == 0:
                    if all(self.is_field_id(k) for k, _ in stores):
                        return "fieldId"
        return RAW

    def classify_namespace_names(self) -> str:
        out = []
        for cname in ("add_constant", "add_outer_constant", "try_add_constant", "try_add_outer_constant"):
            for c in self.calls.get(cname, []):
                if c._module not in self.gen_modules or not c.args:
                    continue
                if enclosing_func(c) is not None and enclosing_func(c).name in (
                        "add_constant", "add_outer_constant"):
                    continue
                out.append(self.classify(c.args[0]))
        return join(out + ["fragment"]) if out else RAW

    def classify_param(self, fn, argname: str) -> str:
        vals = self.call_args(fn, argname)
        if not vals:
            return RAW
        return join([RAW if v is None else self.classify(v) for v in vals])

    @staticmethod
    def param_default(fn, argname):
        args = fn.args
        pos = args.posonlyargs + args.args
        for a, d in zip(pos[len(pos) - len(args.defaults):], args.defaults):
            if a.arg == argname:
                return d
        for a, d in zip(args.kwonlyargs, args.kw_defaults):
            if a.arg == argname and d is not None:
                return d
        return None

    # ---- attributes --------------------------------------------------------------------
    def classify_attribute(self, e: ast.Attribute) -> str:
        m: Module = e._module
        if e.attr.startswith("v_") or e.attr.startswith("_v_"):
            return "genName"
        if e.attr == "expr":
            # ElementExpr(expr, can_inline): every construction site
            ctor = [c for c in self.calls.get("ElementExpr", [])]
            if ctor:
                return join([self.classify(c.args[0]) for c in ctor if c.args])
            return RAW
        if e.attr == "__name__" and isinstance(e.value, ast.Name):
            srcs = self.name_sources(e.value) or []
            if srcs and all(s[0] == "iter" and isinstance(s[1], ast.Tuple) and all(isinstance(x, ast.Name) for x in s[1].elts)
                            for s in srcs):
                return "fixed"  # names of module-level functions/classes imported by the generator
            return RAW
        if e.attr == "name":
            return self.classify_param_name(e)
        if e.attr == "attr_name":
            return "guardedIdent" if self.guarded_by(e, lambda t: ".isidentifier()" in t, e) else RAW
        if e.attr in self.attr_stores and isinstance(e.value, ast.Name) and e.value.id in ("self", "state"):
            return join([self.classify(v) for v in self.attr_stores[e.attr]])
        return RAW

    def guarded_by(self, e, pred, same_expr) -> bool:
        """Is `e` inside the true-branch of an `if` whose test mentions the same expression and satisfies pred?"""
        m: Module = e._module
        want = m.text(same_expr)
        n = e
        p = parent(n)
        while p is not None:
            if isinstance(p, ast.If) and n in p.body:
                t = m.text(p.test)
                if want in t and pred(t):
                    return True
            n, p = p, parent(p)
        return False

    def classify_param_name(self, e: ast.Attribute) -> str:
        """`X.name` where X is an inspect.Parameter (validated by inspect) or an adaptix Param (needs the guard)."""
        m: Module = e._module
        base = e.value
        root = base
        while isinstance(root, (ast.Subscript, ast.Attribute)):
            root = root.value
        origin = ""
        if isinstance(root, ast.Name):
            srcs = self.name_sources(root) or []
            for s in srcs:
                if s[0] in ("expr", "unpack"):
                    origin += m.text(s[1]) + ";"
                elif s[0] == "iter":
                    origin += s[1]._module.text(s[1]) + ";"
                    # one more hop for `for param in parameters`
                    if isinstance(s[1], ast.Name):
                        for s2 in self.name_sources(s[1]) or []:
                            if s2[0] in ("expr", "unpack"):
                                origin += m.text(s2[1]) + ";"
                            elif s2[0] == "param":
                                origin += self.param_annotation(s2[1], s2[2]) + ";"
                elif s[0] == "param":
                    origin += self.param_annotation(s[1], s[2]) + ";"
        if "ParameterElement" in origin:
            ctor = [c for c in self.calls.get("ParameterElement", []) if c.args]
            return join([self.classify(c.args[0]) for c in ctor]) if ctor else RAW
        if "signature.parameters" in origin or "Parameter" in origin:
            return "paramName"
        if "shape.params" in origin or "_field_id_to_param" in origin:
            if self.guarded_by(e, lambda t: "can_be_keyword_arg_name(" in t, e):
                return "kwargName"
            return RAW
        return RAW

    @staticmethod
    def param_annotation(fn, argname) -> str:
        if isinstance(fn, ast.Lambda):
            return ""
        for a in fn.args.posonlyargs + fn.args.args + fn.args.kwonlyargs:
            if a.arg == argname and a.annotation is not None:
                return ast.unparse(a.annotation)
        return ""

    def classify_subscript(self, e: ast.Subscript) -> str:
        if isinstance(e.value, ast.Attribute) and e.value.attr in self.attr_item_stores:
            return join([self.classify(v) for _, v in self.attr_item_stores[e.value.attr]])
        return RAW

    # ------------------------------------------------------------------ site discovery
    def is_message_context(self, n) -> bool:
        p = n
        while p is not None:
            if isinstance(p, ast.Raise):
                return True
            if isinstance(p, ast.Call) and self.callee_name(p) in MESSAGE_CALLS:
                return True
            if isinstance(p, ast.Call) and self.callee_name(p) == "sanitize":
                return True  # the text is an input of the sanitizer, its output is what reaches the code
            if isinstance(p, ast.Lambda):
                pp = parent(p)
                if isinstance(pp, ast.Call) and self.callee_name(pp) == "compile":
                    return True
                if isinstance(pp, ast.keyword) and pp.arg in ("parent_notes_gen",):
                    return True
            if isinstance(p, (ast.FunctionDef, ast.ClassDef)):
                break
            p = parent(p)
        fn = enclosing_func(n)
        if isinstance(fn, ast.FunctionDef) and fn.name in ("__repr__", "__str__"):
            return True
        return False

    def repr_ctx_ok(self, joined: ast.JoinedStr, i: int) -> bool:
        vals = joined.values
        before = vals[i - 1].value if i > 0 and isinstance(vals[i - 1], ast.Constant) else ""
        after = vals[i + 1].value if i + 1 < len(vals) and isinstance(vals[i + 1], ast.Constant) else ""
        if i > 0 and not isinstance(vals[i - 1], ast.Constant):
            return False  # adjacent interpolations: cannot tell what precedes the literal
        if i + 1 < len(vals) and not isinstance(vals[i + 1], ast.Constant):
            return False
        if before and (before[-1].isalnum() or before[-1] in "_'\"" or ord(before[-1]) > 127):
            return False
        if after and after[0] in "'\"":
            return False
        return True

    def sites(self):
        out = []
        for m in self.gen_modules:
            for n in ast.walk(m.tree):
                if isinstance(n, ast.JoinedStr):
                    if self.is_message_context(n):
                        continue
                    if isinstance(parent(n), ast.FormattedValue):
                        continue  # format spec
                    fam = self.family_def(n)
                    for i, v in enumerate(n.values):
                        if not isinstance(v, ast.FormattedValue):
                            continue
                        conv = {-1: "", 114: "r", 115: "s", 97: "a"}[v.conversion]
                        if fam is not None:
                            cls = "familyDef"
                        elif v.format_spec is not None:
                            cls = RAW
                        else:
                            cls = self.classify(v.value, conv)
                        ctx_ok = self.repr_ctx_ok(n, i) if cls == "reprQuoted" else True
                        out.append(dict(file=m.short, line=v.lineno, func=func_name(n), kind="fstring", conv=conv,
                                        expr=m.text(v.value), cls=cls, ctx=ctx_ok))
                elif isinstance(n, ast.Call) and self.callee_name(n) == "substitute" and isinstance(n.func, ast.Attribute) \
                        and isinstance(n.func.value, ast.Call) and self.callee_name(n.func.value) == "Template":
                    tmpl = n.func.value.args[0]
                    out.append(dict(file=m.short, line=n.lineno, func=func_name(n), kind="template", conv="",
                                    expr=m.text(tmpl), cls=self.classify(tmpl), ctx=True))
                    for k in n.keywords:
                        out.append(dict(file=m.short, line=n.lineno, func=func_name(n), kind="template", conv="",
                                        expr=f"{k.arg}={m.text(k.value)}", cls=self.classify(k.value), ctx=True))
                elif isinstance(n, ast.Call) and self.callee_name(n) == "format" and isinstance(n.func, ast.Attribute) \
                        and isinstance(n.func.value, (ast.Constant, ast.JoinedStr)):
                    if self.is_message_context(n):
                        continue
                    for a in list(n.args) + [k.value for k in n.keywords]:
                        out.append(dict(file=m.short, line=n.lineno, func=func_name(n), kind="format", conv="",
                                        expr=m.text(a), cls=RAW, ctx=True))
                elif isinstance(n, ast.BinOp) and isinstance(n.op, (ast.Add, ast.Mod)):
                    if isinstance(parent(n), ast.BinOp) and isinstance(parent(n).op, ast.Add):
                        continue  # inner node of a chain
                    if self.is_message_context(n):
                        continue
                    parts = []

                    def flat(x):
                        if isinstance(x, ast.BinOp) and isinstance(x.op, ast.Add):
                            flat(x.left)
                            flat(x.right)
                        else:
                            parts.append(x)
                    flat(n)
                    if isinstance(n.op, ast.Mod):
                        if isinstance(n.left, ast.Constant) and isinstance(n.left.value, str):
                            out.append(dict(file=m.short, line=n.lineno, func=func_name(n), kind="percent", conv="",
                                            expr=m.text(n.right), cls=RAW, ctx=True))
                        continue
                    if not any(isinstance(p, (ast.JoinedStr,)) or (isinstance(p, ast.Constant) and isinstance(p.value, str))
                               for p in parts):
                        continue  # arithmetic / tuple concatenation
                    for p in parts:
                        if isinstance(p, ast.Constant):
                            continue
                        if isinstance(p, ast.JoinedStr):
                            continue  # its own interpolations are listed as fstring sites
                        out.append(dict(file=m.short, line=p.lineno, func=func_name(n), kind="concat", conv="",
                                        expr=m.text(p), cls=self.classify(p), ctx=True))
                elif isinstance(n, ast.Call) and isinstance(n.func, ast.Attribute) and isinstance(n.func.value, ast.Name) \
                        and n.func.value.id == "ast" and n.func.attr in ("Name", "keyword", "parse"):
                    # identifiers / source text handed to the AST that `ast.unparse` prints verbatim
                    target = None
                    if n.func.attr == "Name":
                        target = next((k.value for k in n.keywords if k.arg == "id"), n.args[0] if n.args else None)
                    elif n.func.attr == "keyword":
                        target = next((k.value for k in n.keywords if k.arg == "arg"), None)
                    else:
                        target = n.args[0] if n.args else None
                    if target is None:
                        continue
                    if n.func.attr == "keyword":
                        cls = "kwargName" if self.guarded_by(target, lambda t: "can_be_keyword_arg_name(" in t, target) \
                            else RAW
                    else:
                        cls = self.classify(target)
                    out.append(dict(file=m.short, line=n.lineno, func=func_name(n), kind="ast." + n.func.attr, conv="",
                                    expr=m.text(target), cls=cls, ctx=True))
                elif isinstance(n, ast.Call) and self.callee_name(n) == "join" and isinstance(n.func, ast.Attribute) \
                        and isinstance(n.func.value, ast.Constant) and isinstance(n.func.value.value, str):
                    if self.is_message_context(n):
                        continue
                    out.append(dict(file=m.short, line=n.lineno, func=func_name(n), kind="join", conv="",
                                    expr=m.text(n.args[0]), cls=self.classify(n), ctx=True))
        out.sort(key=lambda s: (s["file"], s["line"], s["expr"]))
        return out

    # ------------------------------------------------------------------ name tables
    def template_texts(self, m: Module):
        """Constant text of every string that feeds generated code in module m, with `\\0` marking interpolations
        and the class of what is interpolated."""
        res = []
        for n in ast.walk(m.tree):
            if isinstance(n, ast.JoinedStr):
                if self.is_message_context(n) or isinstance(parent(n), ast.FormattedValue):
                    continue
                txt = ""
                for v in n.values:
                    txt += v.value if isinstance(v, ast.Constant) else "\0"
                res.append((n, txt))
            elif isinstance(n, ast.Constant) and isinstance(n.value, str):
                if isinstance(parent(n), ast.JoinedStr) or self.is_message_context(n):
                    continue
                p = parent(n)
                if isinstance(p, ast.Expr):
                    continue  # docstring
                if isinstance(p, ast.Call) and self.callee_name(p) in ("add_constant", "add_outer_constant",
                                                                         "try_add_constant", "TypeVar"):
                    if p.args and p.args[0] is n:
                        res.append((n, n.value))  # a constant registered under a fixed name
                    continue
                if isinstance(p, ast.keyword) or isinstance(p, (ast.Compare, ast.Subscript, ast.Dict, ast.Tuple)) \
                        and not self.feeds_code(n):
                    continue
                if self.feeds_code(n):
                    res.append((n, n.value))
        return res

    def feeds_code(self, n) -> bool:
        """A plain string constant is template text if it is an argument of a builder call / operand of a builder
        operator / assigned to a local that is interpolated / passed as on_* argument / returned from a generator."""
        p = parent(n)
        while isinstance(p, (ast.BinOp, ast.IfExp, ast.BoolOp)):
            p = parent(p)
        if isinstance(p, ast.Call):
            name = self.callee_name(p)
            if name in ("isinstance", "getattr", "hasattr", "maketrans", "replace", "startswith", "endswith",
                        "compile", "dedent", "TypeVar", "get"):
                return False
            return True
        if isinstance(p, (ast.AugAssign, ast.Assign, ast.Return, ast.keyword, ast.AnnAssign)):
            return True
        if isinstance(p, ast.withitem):
            return True
        return False

    def name_spec(self, m: Module):
        families, fixed, heads = set(), set(), set()
        ident = re.compile(r"[A-Za-z_\0][A-Za-z0-9_\0]*")
        for n, txt in self.template_texts(m):
            if isinstance(n, ast.JoinedStr):
                fam = self.family_def(n)
                if fam is not None:
                    families.add(fam)
                    continue
            # drop string literals and comments of the template text itself
            code = re.sub(r"#[^\n]*", "", txt)
            code = re.sub(r"f?'[^'\n]*'|f?\"[^\"\n]*\"", " ", code)
            for w in ident.findall(code):
                if "\0" not in w:
                    if re.fullmatch(r"[A-Za-z_][A-Za-z0-9_]*", w):
                        fixed.add(w)
                    continue
                if w == "\0":
                    continue
                # identifier text glued to an interpolation: `prefix\0` is a family written inline,
                # `\0_suffix` a generator variable with a fixed suffix
                pre = w.split("\0")[0]
                if pre:
                    families.add(pre)
        # `for named_value in (append_trail, ...): add_constant(named_value.__name__, named_value)`
        for cname in ("add_constant", "add_outer_constant"):
            for c in self.calls.get(cname, []):
                if c._module is not m or not c.args:
                    continue
                a0 = c.args[0]
                if isinstance(a0, ast.Attribute) and a0.attr == "__name__" and isinstance(a0.value, ast.Name):
                    for src in self.name_sources(a0.value) or []:
                        if src[0] == "iter" and isinstance(src[1], ast.Tuple):
                            fixed.update(x.id for x in src[1].elts if isinstance(x, ast.Name))
        # `_with_path_suffix(basis)`: basis + "_" + counter
        for c in self.calls.get("_with_path_suffix", []):
            if c._module is m and c.args and isinstance(c.args[0], ast.Constant):
                heads.add(c.args[0].value + "_")
                fixed.add(c.args[0].value)
        fixed -= families
        return sorted(families), sorted(fixed), sorted(heads)


# ---------------------------------------------------------------------- Lean output

def lean_str(s: str) -> str:
    return "[" + ", ".join(str(ord(c)) for c in s) + "]"


def lean_string_lit(s: str) -> str:
    out = []
    for ch in s:
        if ch == "\\":
            out.append("\\\\")
        elif ch == '"':
            out.append('\\"')
        elif ch == "\n":
            out.append("\\n")
        elif ch == "\t":
            out.append("\\t")
        elif ord(ch) < 32 or ord(ch) == 127:
            out.append("\\x%02x" % ord(ch))
        else:
            out.append(ch)
    return '"' + "".join(out) + '"'


def builtin_names(repo: Path):
    src = str(repo / "src")
    if src not in sys.path:
        sys.path.insert(0, src)
    utils = importlib.import_module("adaptix._internal.code_tools.utils")
    assert Path(utils.__file__).resolve().is_relative_to(repo.resolve()), utils.__file__
    return sorted(utils.NAME_TO_BUILTIN)


def field_id_validated(repo: Path) -> bool:
    m = ast.parse((repo / (INTERNAL + "model_tools/definitions.py")).read_text())
    valid_fn = post_init = False
    for n in ast.walk(m):
        if isinstance(n, ast.FunctionDef) and n.name == "is_valid_field_id":
            rets = [r for r in ast.walk(n) if isinstance(r, ast.Return)]
            valid_fn = len(rets) == 1 and ast.unparse(rets[0].value) == "value.isidentifier()"
        if isinstance(n, ast.ClassDef) and n.name == "BaseField":
            for f in n.body:
                if isinstance(f, ast.FunctionDef) and f.name == "__post_init__":
                    t = ast.unparse(f)
                    post_init = "not is_valid_field_id(self.id)" in t and "raise ValueError" in t
    return valid_fn and post_init


def next_id_facts(repo: Path):
    """The numbered helper names of the converter generator (`GenState.register_next_id`, broaching/code_generator.py):
    * the prefixes it is called with, in source order ("?" for an argument that is not a string literal);
    * whether every `return` of `register_next_id` hands the numbered name to `self.register_mangled` (the numbered
      name is only a BASIS, a user object may already carry it) and the function stores nothing in the namespace itself."""
    m = ast.parse((repo / (INTERNAL + "conversion/broaching/code_generator.py")).read_text())
    prefixes, through = [], False
    for n in ast.walk(m):
        if isinstance(n, ast.Call) and isinstance(n.func, ast.Attribute) and n.func.attr == "register_next_id":
            a0 = n.args[0] if n.args else None
            prefixes.append((n.lineno, a0.value if isinstance(a0, ast.Constant) and isinstance(a0.value, str) else "?"))
        if isinstance(n, ast.ClassDef) and n.name == "GenState":
            for f in n.body:
                if isinstance(f, ast.FunctionDef) and f.name == "register_next_id":
                    rets = [r for r in ast.walk(f) if isinstance(r, ast.Return)]
                    calls = [c.func.attr for c in ast.walk(f) if isinstance(c, ast.Call) and isinstance(c.func, ast.Attribute)]
                    through = (bool(rets)
                               and all(isinstance(r.value, ast.Call) and ast.unparse(r.value.func) == "self.register_mangled"
                                       for r in rets)
                               and all(c == "register_mangled" for c in calls))
    return [p for _, p in sorted(prefixes)], through


def analyse(repo: Path):
    a = Analysis(repo)
    sites = a.sites()
    specs = {}
    for key, idx in (("loader", 0), ("dumper", 1)):
        specs[key] = a.name_spec(a.gen_modules[idx])
    return dict(sites=sites, specs=specs, builtins=builtin_names(repo), field_id_validated=field_id_validated(repo),
                next_id=next_id_facts(repo))


def render_lean(data) -> str:
    L = []
    L.append("/-  GENERATED by extract/c19_sites.py from the working tree under test — do not edit.  -/")
    L.append("import AdaptixModel.Gen.Names")
    L.append("")
    L.append("namespace Adaptix.Generated.C19")
    L.append("open Adaptix.Gen")
    L.append("")
    L.append("def sites : List Site := [")
    rows = []
    for s in data["sites"]:
        rows.append(
            "  { file := %s, line := %d, func := %s, kind := %s, conv := %s,\n    expr := %s, cls := SiteClass.%s, ctxOk := %s }"
            % (lean_string_lit(s["file"]), s["line"], lean_string_lit(s["func"]), lean_string_lit(s["kind"]),
               lean_string_lit(s["conv"]), lean_string_lit(s["expr"][:200]), s["cls"], "true" if s["ctx"] else "false"))
    L.append(",\n".join(rows))
    L.append("]")
    L.append("")
    for key in ("loader", "dumper"):
        fams, fixed, heads = data["specs"][key]
        L.append(f"/-- names of the model {key} generator -/")
        L.append(f"def {key}Spec : NameSpec where")
        L.append("  families := [" + ", ".join(f"\n    {lean_str(x)} /- {x} -/" for x in fams) + "]")
        L.append("  fixed := [" + ", ".join(f"\n    {lean_str(x)} /- {x} -/" for x in fixed) + "]")
        L.append("  heads := [" + ", ".join(f"\n    {lean_str(x)} /- {x} -/" for x in heads) + "]")
        L.append("")
    L.append("/-- keys of code_tools.utils.NAME_TO_BUILTIN -/")
    L.append("def builtinNames : List Str := [" + ", ".join(f"\n  {lean_str(x)} /- {x} -/" for x in data["builtins"]) + "]")
    L.append("")
    L.append("/-- `BaseField.__post_init__` refuses ids for which `str.isidentifier()` is false -/")
    L.append(f"def fieldIdValidated : Bool := {'true' if data['field_id_validated'] else 'false'}")
    L.append("")
    prefixes, through = data["next_id"]
    L.append("/-- prefixes `GenState.register_next_id` is called with (broaching/code_generator.py, source order) -/")
    L.append("def nextIdPrefixes : List Str := [" + ", ".join(f"\n  {lean_str(x)} /- {x} -/" for x in prefixes) + "]")
    L.append("")
    L.append("/-- every `return` of `register_next_id` is `self.register_mangled(<numbered name>, obj)` -/")
    L.append(f"def nextIdThroughMangling : Bool := {'true' if through else 'false'}")
    L.append("")
    L.append("end Adaptix.Generated.C19")
    return "\n".join(L) + "\n"


def c19_sites(repo, lean_dir):
    """EXTRACT entry point used by ./check (name shows up in the obligation list)."""
    repo, lean_dir = Path(repo), Path(lean_dir)
    data = analyse(repo)
    if not data["sites"]:
        raise RuntimeError("no interpolation site found: the generator modules changed shape")
    for key in ("loader", "dumper"):
        if not data["specs"][key][0]:
            raise RuntimeError(f"no generated-name family found in the {key} generator")
    out = lean_dir / "AdaptixModel" / "Generated" / "C19Sites.lean"
    out.parent.mkdir(parents=True, exist_ok=True)
    text = render_lean(data)
    if not out.exists() or out.read_text() != text:
        out.write_text(text)
    return data


if __name__ == "__main__":
    repo = Path(sys.argv[1] if len(sys.argv) > 1 else "/repo")
    d = analyse(repo)
    for s in d["sites"]:
        flag = "  " if s["cls"] != RAW and s["ctx"] else "!!"
        print(f"{flag} {s['file']}:{s['line']:<4} {s['kind']:<8} {s['conv'] or '-':<2} {s['cls']:<13} {s['expr'][:70]!r}  [{s['func']}]")
    for k, (fams, fixed, heads) in d["specs"].items():
        print(k, "families", fams)
        print(k, "heads", heads)
        print(k, "fixed", fixed)
    print("builtins", len(d["builtins"]), "fieldIdValidated", d["field_id_validated"], "next_id", d["next_id"])
    print("raw sites:", sum(1 for s in d["sites"] if s["cls"] == RAW or not s["ctx"]), "of", len(d["sites"]))
