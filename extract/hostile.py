"""Hostile datum corpus: at least one (usually many) values per tag, chosen to reach every exception
class the stdlib constructors can raise on builtin data.  Shared by the catalogue builder and the C04 harness."""
import collections
import datetime
import decimal
import fractions
import io
import ipaddress
import pathlib
import re
import uuid

from . import scalars


def _gen(xs):
    for x in xs:
        yield x


def corpus():
    """-> list of zero-arg factories (fresh datum each call: iterators and BytesIO are one-shot)"""
    S = [
        "", " ", "0", "1", "-1", "+1", " 1 ", "1_0", "1.5", "-1.5", "1e3", "1e400", "1e-400", "nan", "inf", "-inf", "NaN",
        "abc", "1/2", "1/0", "0/1", "-3/4", "1+2j", "j", "1j", "(1+2j)", "é", "١٢", "１２", "\x00", "a\nb", "𝟙",
        "2020-01-02", "2020-01-02T03:04:05", "2020-01-02 03:04:05+00:00", "03:04:05", "24:00", "2020-13-01",
        "0000-00-00", "2020-01-02T25:00:00", "20200102", "2020-W01-1",
        "YQ==", "YQ=", "YQ", "=", "====", "a", "ab", "abc=", "YWJj", "Y Q==", "YQ==\n", "!!!!", "YW_Jj", "____", "YQ-_", "YWJj=", "YWJ==",
        "a+", "(", "[", "a{2,1}", "a{99999999999}", "(?P<n>a)(?P<n>b)", "\\", "*", "a**", "(?i)a", "x" * 300,
        "1.2.3.4", "1.2.3.4/24", "1.2.3.4/33", "256.1.1.1", "1.2.3", "::1", "::1/64", "::1/129", "fe80::1%eth0", ":::",
        "1.2.3.0/24", "::/64", "1.2.3.4/255.255.255.0",
        "12345678-1234-5678-1234-567812345678", "12345678123456781234567812345678", "{12345678-1234-5678-1234-567812345678}",
        "urn:uuid:12345678-1234-5678-1234-567812345678", "1234", "g" * 32,
        "/a/b", "a/b", "c:\\a", ".", "a\x00b", "True", "False", "None", "true", "\ud800", "a\udcffb",
    ]
    I = [0, 1, -1, 2, 255, 256, -256, 2 ** 31, 2 ** 32, 2 ** 53 + 1, 2 ** 63, 2 ** 64, 2 ** 128, -2 ** 128, 10 ** 30, 10 ** 400,
         -10 ** 400, 86400 * 10 ** 9, 10 ** 15, 999999999 * 86400 + 1, 2 ** 129]
    F = [0.0, -0.0, 1.0, 1.5, -1.5, 0.1, 1e308, -1e308, 1e-320, float("nan"), float("inf"), float("-inf"), 2.0 ** 70,
         86400e9, 1e15, 1e16, 0.9999995, -0.0000005, 1e300]
    B = [b"", b"1", b"abc", b"YQ==", b"\xff\xfe", b"1.5", b"\x00" * 4, b"\x01\x02\x03\x04", b"\x00" * 16, b"a" * 16,
         b"2020-01-02", b"::1"]
    out = []

    def add(v):
        out.append(lambda v=v: v)

    add(None)
    for b in (True, False):
        add(b)
    for x in I + F + S + B:
        add(x)
    for b in B[:6]:
        out.append(lambda b=b: bytearray(b))
    for v in ([], [1], ["a"], [[1]], [None], [1, 2, 3], list(range(20)), ["1", 2]):
        add(v)
    for v in ((), (1,), ("a", "b"), (1, 2), (1, 2, 3), ((1,),), (1, "a", None), (2020, 1, 2), (1, 2, 3, 4), (0, 0, 0, 0, 0, 0)):
        add(v)
    # the (sign, digits, exponent) form of Decimal(), well-formed and with ints beyond the C range
    for v in ((0, (1, 2), -1), (1, (1, 2), "F"), (0, "1", "."), (10 ** 20, (1,), 0), (0, (1,), 10 ** 20), (0, (10 ** 20,), 0),
              [0, [1], 10 ** 20], [0, [1, 5], -1]):
        add(v)
    for v in (set(), {1}, {"a", "b"}, frozenset(), frozenset({1, 2})):
        add(v)
    out.append(lambda: collections.deque([1, 2]))
    out.append(lambda: collections.deque())
    for v in ({}, {"a": 1}, {1: 2}, {"a": {"b": 1}}, {(1, 2): 3}, {None: None}, {"seconds": 1}, {"x": "1"}):
        add(v)
    for xs in ([], [1], ["a", "b"], [1, 2, 3]):
        out.append(lambda xs=xs: _gen(xs))
        out.append(lambda xs=xs: iter(xs))
    for v in (decimal.Decimal("1.5"), decimal.Decimal("NaN"), decimal.Decimal("sNaN"), decimal.Decimal("Infinity"),
              decimal.Decimal("-0"), decimal.Decimal("1E+400"), decimal.Decimal("-1.5"), decimal.Decimal("0.9999995"),
              decimal.Decimal(10 ** 30), decimal.Decimal("1e-30")):
        add(v)
    for v in (fractions.Fraction(1, 2), fractions.Fraction(0), fractions.Fraction(-3, 4), fractions.Fraction(10 ** 400)):
        add(v)
    for v in (1 + 2j, 0j, complex("nan"), complex("inf")):
        add(v)
    for v in (datetime.datetime(2020, 1, 2, 3, 4, 5), datetime.datetime(1, 1, 1), datetime.datetime(9999, 12, 31, 23, 59, 59),
              datetime.datetime(2020, 1, 2, tzinfo=datetime.timezone.utc), datetime.date(2020, 1, 2), datetime.date(1, 1, 1),
              datetime.time(3, 4, 5), datetime.time(0), datetime.timedelta(seconds=3), datetime.timedelta(days=-1, microseconds=5),
              datetime.timedelta.max):
        add(v)
    for v in (uuid.UUID(int=5), ipaddress.IPv4Address("1.2.3.4"), ipaddress.IPv6Address("::1"),
              ipaddress.IPv4Network("1.2.3.0/30"), ipaddress.IPv6Network("::/126"), ipaddress.IPv4Interface("1.2.3.4/24"),
              ipaddress.IPv6Interface("::1/64"), pathlib.PosixPath("/a/b"), pathlib.PurePosixPath("a"),
              pathlib.PureWindowsPath("c:/a"), re.compile("a+"), re.compile(b"a+")):
        add(v)
    out.append(lambda: io.BytesIO(b"abc"))
    for rep in ("enum:int", "enum:str", "enum:plain", "enum:flag"):
        add(scalars.tag_representatives()[rep])
    out.append(object)
    add(type)
    add(len)
    add(Ellipsis)
    add(NotImplemented)
    return out
